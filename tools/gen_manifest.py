#!/usr/bin/env python3
"""Regenerates MANIFEST.json from the per-property claim table below."""
import json
import os

HERE = os.path.dirname(os.path.dirname(os.path.abspath(__file__)))
props = [json.loads(l) for l in open(os.path.join(HERE, "properties.jsonl"))]

CLAIMS = {}


def claim(pid, category, text, note, technique, design_ref, thorough=True):
    CLAIMS[pid] = dict(category=category, text=text, note=note, technique=technique, design_ref=design_ref, thorough=thorough)


claim("C07", "proof",
      "Finite table, decided completely: every generated name/symbol/si_prefix/scale constant of every catalogue and astronomical unit "
      "(folded from the type-checked program, f64 and decimal back-ends) equals the attribute row as written and an independently written "
      "exact-rational definition table (a scale the attribute does not spell as a literal is judged by its generated constant alone); SI-prefix consistency by exact arithmetic. One recorded known finding (Sideral_Day).",
      "Trusted: rustc type checking/THIR construction, correctly rounded literal parsing (rustc and Python agree), the oracle table "
      "/verif/oracle/units.txt. Units unknown to the oracle are reported as unverified, not as violations.",
      "constant-table extraction from THIR + exact-rational oracle comparison (static)", "DESIGN.md §4 C07")

VF_NOTE = ("Trusted: rustc type checking, THIR construction and trait resolution; IEEE-754 / fpdec arithmetic (each arithmetic node is one "
           "correctly rounded operation of the amount type); derived PartialEq of field-less enums. The SIZE of the rounding error is not decided. "
           "Fail-closed: a body rewritten into an idiom outside the supported THIR subset is reported as unsupported-construct.")

claim("C01", "other",
      "Decides the real-number function and the exactness clauses for all types, unit pairs and amounts at once: gated value-flow summaries of "
      "LinearScaledUnit::ratio, HasRefUnit::equiv_amount and ::convert (generic bodies) are compared with the specification over the truth table of "
      "their guards — same-unit branch is the untouched amount (no arithmetic node), converted branch is amount*s_from/s_to as a rational function, "
      "convert stores exactly equiv_amount's result and the requested unit; record axioms amount(new(a,u))=a, unit(new(a,u))=u for every generated "
      "type in both back-ends; an impl that overrides one of the analysed defaults must be that default specialised to its type (equivalence decided per type over all unit assignments: same outcome and same operand tree in every case); scale tables total and positive. Decimal back-end: forward error analysis of the conversion term for every "
      "ordered unit pair of every reference-unit type (amount-free sub-trees folded as fpdec computes them; effective coefficient vs exact scale ratio, 1e-18 relative). Found and fixed a "
      "genuine defect: conversion to a larger unit lost up to 14 digits (known_findings.json).",
      VF_NOTE, "gated value-flow summaries over THIR + exact-tree / rational-function normal forms (static)", "DESIGN.md §4 C01")
claim("C02", "other",
      "Summaries of HasRefUnit::eq / partial_cmp for (a,b) and (b,a) over the finite case split {same unit; s_a<s_b; s_a=s_b, units differ; s_a>s_b}: "
      "both operand orders must compare the same two rounded operand trees (order independence, exact), each side being the magnitude in one common "
      "unit (rational function), at most one converted side, bare amount comparison under equal units, eq and partial_cmp on the same pair; every "
      "generated PartialEq/PartialOrd impl forwards to these bodies and provides nothing else; decimal back-end: the conversion each case applies scales by the exact ratio to 1e-18 for every "
      "ordered unit pair. Found and fixed a genuine defect (see known_findings.json).",
      VF_NOTE + " NaN excluded by the property.", "gated value-flow summaries + finite order domain for the guards (static)", "DESIGN.md §4 C02, §7.1")
claim("C03", "other",
      "Value-flow forms of HasRefUnit::add/sub/div with the conversion inlined: result unit slot is exactly the left operand's unit, amount is "
      "a ± b*s_b/s_a resp. (a*s_a)/(b*s_b) as rational function, the bare operation under equal units; every generated Add/Sub/Div<Self> of every "
      "reference-unit type forwards its operands in order to these bodies and has the specified Output type; decimal back-end: coefficient accuracy of +, -, / for every ordered unit pair (1e-18).",
      VF_NOTE, "gated value-flow summaries + who-calls on resolved callees (static)", "DESIGN.md §4 C03")
claim("C08", "other",
      "Record axioms of every generated new/amount/unit by composition; the five scalar/unit operator bodies of every quantity type are exact "
      "pass-through / single-operation trees (so zero, -0, infinities and NaN need no separate argument); the dimensionless amount, One, AMNT_ONE; operator surfaces added later are "
      "judged too: borrowed variants of the scaling operators must compute what the by-value form computes; bodies that work through compound assignment or on the fields directly are evaluated (writes through &mut receivers) and compared in the type's record form.",
      VF_NOTE, "value-flow forms as exact trees, per generated impl (static)", "DESIGN.md §4 C08")
claim("C10", "other",
      "Quantity::{eq,partial_cmp,add,sub,div} as gated terms: equality is exactly same-unit AND same-amount (Boolean truth table), ordering None across "
      "units, arithmetic across units ends in a diverging panic and never returns; types without reference unit forward to these bodies and implement "
      "neither HasRefUnit nor LinearScaledUnit (a forwarder with a fast path is expanded and compared case by case with the default it names); single-unit types do plain amount arithmetic; compound-assignment impls, if any, must leave in *self what the checked binary operator returns.",
      VF_NOTE, "gated value-flow summaries incl. diverging branch + who-calls (static)", "DESIGN.md §4 C10")
claim("C16", "proof",
      "The four 25-row tables and the discriminants are extracted as constant tables and compared with the SI brochure table; the gated summary of from_exp is evaluated for each of the 256 "
      "i8 values (integer semantics with overflow checks: hit -> that prefix, miss -> None, never a panic; a loop-based lookup is constant-folded at each of the 256 arguments instead), from_abbr tests its argument only by equality with literals and is decided on "
      "{each literal} + {any other string}; iteration order from VARIANTS.",
      "Trusted: rustc match semantics, oracle/si_prefixes.json, core::slice::Iter order.", "constant-table extraction + exhaustive evaluation of the lookup summaries + oracle comparison (static, exhaustive)",
      "DESIGN.md §4 C16")

claim("C04", "other",
      "One value-flow obligation per generated Mul/Div between quantity types (catalogue 34, astronomical 4, fixtures 8; both back-ends): combined scale uses the impl's "
      "own operator, natural-unit branch stores exactly a⊗b with the looked-up unit, fallback passes (a⊗b)·σ (rational function) to the RESULT type's _fit; generic _fit "
      "returns new(x/scale(u), u) with one u; three reference forms per operator forward the dereferenced operands in order to the by-value impl (resolved callee) or satisfy the same specification themselves; helper default methods are looked through with their generic parameters bound to the operator's types; decimal back-end: "
      "for every unit pair a rounded scale combination never coincides spuriously with a result unit's scale.",
      VF_NOTE, "gated value-flow summaries per generated impl + resolved who-calls (static)", "DESIGN.md §4 C04")
claim("C05", "other",
      "_fit uses the amount only in comparisons (checked structurally), so selection is a function on a finite order partition: the extracted selection model "
      "(iterator chain + closure predicates from the THIR summary) is evaluated on every cell (below/on/between/above every distinct scale, zero, negative) of every "
      "reference-unit type's table in both back-ends and compared with the specified selection; every type's own scale lookup (the dimensionless amount's included): lookup(1) is the reference unit, lookup(s) hits for every declared scale and misses on every other cell. Exhaustive.",
      "Trusted: std contracts of Iterator::filter/next/last/find and Option::unwrap; rustc THIR construction. The natural-unit branch form is C04, the lookup form C09.",
      "extracted selection model evaluated over the finite order domain of the scale tables (static, exhaustive)", "DESIGN.md §4 C05")
claim("C06", "proof",
      "The operator impl table of the type-checked crates (all features, both back-ends, astronomical crate, fixtures) is enumerated and must EQUAL the closure of the "
      "declared derivations plus the per-type standard set (nothing missing, nothing extra, each once, three reference forms each); every Mul/Div entry is consistent with an "
      "independent dimension-vector table; declared derivations equal independently written defining equations; no generic operator impls except the Rate forms; "
      "comparisons and +,- only like with like. thorough: rustc's verdict on the generated operator matrix (catalogue 15x15x6 in both back-ends, astronomical 5x5x6) and on the matrices of seeded random conflict-free derivation graphs.",
      "Trusted: rustc trait selection (an operator expression on concrete types type-checks iff the impl table has a matching entry; operators do not auto-ref); oracle/dimensions.json, oracle/derivations.json.",
      "impl-table enumeration from the type-checked program vs declaration closure and dimension oracle (static, exhaustive)", "DESIGN.md §4 C06")
claim("C09", "proof",
      "Per unit enum of every macro instance (both back-ends): VARIANTS folded and compared with the order computed from the un-expanded declaration by exact rationals "
      "(permutation, non-decreasing scale, reference unit first among scale-one units, declaration order for ties / name order); Unit::iter reads its own VARIANTS; one public "
      "upper-snake constant per unit; the four lookups use their key in comparisons only and their gated summaries are evaluated on every type's table for every key class "
      "(each symbol / scale, empty string, unused key, cells between scales, NaN) against 'first unit in iteration order carrying the key, else None'; not overridden; REF_UNIT, is_ref_unit, as_qty forms.",
      "Trusted: rustc THIR construction; std contracts of <[T]>::iter, Iterator::cloned, Iterator::find.",
      "constant-table extraction + declaration agreement + lookup summaries evaluated over the finite key partition (static, exhaustive)", "DESIGN.md §4 C09")

claim("C13", "other",
      "Rate is a four-field record (axioms by composing the extracted new/accessor bodies); reciprocal swaps the pairs and is an involution by rewriting; Rate*q (generic body), and "
      "q*Rate / q/Rate of every quantity type are compared as rational functions over the uninterpreted like-quantity ratio (unit slots exactly); q / r equals q * reciprocal(r) after substitution; "
      "every arithmetic intermediate of a rate operation is one of the magnitudes the property names (so no unbounded intermediate is rounded in the decimal back-end); if Rate*q delegates to q*Rate the per-type obligation extends to the dimensionless amount; borrowed rate forms must forward.",
      VF_NOTE + " The like-quantity ratio itself is C03/C10; as_qty is C09.", "value-flow summaries + rational-function normal form (static)", "DESIGN.md §4 C13")
claim("C14", "other",
      "ConversionTable::convert (one generic body, hence any table): identity branch returns the value unchanged, otherwise find_map over the table in order with the row predicate "
      "`from == qty.unit() && to == to_unit` (truth table) and the affine map amount*factor+offset into the requested unit. The temperature table is folded from its constant in both "
      "back-ends: 6 ordered pairs each once, 12 constants vs exact rational formulas (exact / amount-type precision), inverse pairs and compositions consistent.",
      "Trusted: std contracts of <[T]>::iter, Iterator::find_map, bool::then; oracle/temperature.json. Rounding of amount*factor+offset (2 operations) not bounded.",
      "value-flow summary of the generic converter + constant-table oracle comparison (static)", "DESIGN.md §4 C14")
claim("C15", "other",
      "PARTLY decided (structure only): every generated Display impl forwards to Quantity::fmt / Unit::fmt with the caller's formatter; Quantity::fmt writes exactly once through "
      "pad_integral(amount >= 0, \"\", format!(\"{|amount|} {unit}\")) with the precision forwarded iff given (templates decoded from the lowered format_args byte code), bare amount for unit-less "
      "values; Unit::fmt is the symbol under string formatting; Rate writes 'term / per' omitting a per-multiple of one (6 cases); the displayed symbol resolves to the stored unit (lookup model on every table). NOT decided: digit generation, rounding at a precision, "
      "width/fill/alignment and '+' handling inside std/fpdec formatting, and the parse-back clause.",
      "Trusted: std and fpdec formatting code; the format_args! byte-code layout of the pinned toolchain (decoder fails closed).",
      "data-flow into the formatting calls + template decoding (static); behavioural clauses not applicable", "DESIGN.md §4 C15")
claim("C17", "other",
      "PARTLY decided (structure only): in serde configurations (decimal+serde, f64+serde) every generated unit enum and quantity struct has exactly one derived Serialize and Deserialize impl, "
      "no #[serde(..)] attribute, enums serialise every variant under its own identifier (table extracted from the derive expansion; Deserialize VARIANTS agree), structs write and read every "
      "field; without the feature no impl exists; Cargo feature wiring. NOT decided: bit-exact JSON text round trip of f64 / Decimal (serde_json, ryu, fpdec).",
      "Trusted: serde derive semantics for attribute-free items; serde_json/ryu/fpdec conversions.",
      "impl-table + derive-expansion table extraction (static); round-trip clause not applicable", "DESIGN.md §4 C17")
claim("C18", "other",
      "Complete inventory of panic-capable sites (Assert terminators, diverging calls, unwrap/expect/index vocabulary, unvetted std callees) in the MIR of every library body in both back-ends "
      "= the three documented mixed-unit panics + one Option::unwrap in _fit; the documented panics are unreachable from reference-unit types (resolved call graph); the unwrap is discharged for "
      "every result type and every cell from the extracted tables (f64: incl. NaN and +-infinity magnitudes). Decimal back-end: magnitude-bound analysis (exact rational vertex enumeration over the polygon of admissible amounts) of every "
      "arithmetic node of every derived operator x unit pair and of convert/==/partial_cmp/+/-// of every reference-unit type x ordered unit pair: every intermediate stays below 2^127/10^18 "
      "whenever the property's named magnitudes lie in [1e-15, 1e17]; the scale lookups are evaluated by a decimal-mode model interpreter per unit pair; every intermediate of a rate operation is one "
      "of the named magnitudes; no library body constructs a core::fmt::Error (a Display impl returning an error of its own makes to_string() panic). Found and fixed a genuine overflow defect (known_findings.json). NOT decided: the decimal range inside formatting (fpdec's Display).",
      "Trusted: MIR construction makes every language-level panic explicit; f64 arithmetic never panics; allow-listed std functions; fpdec-0.11 overflow semantics as read from its source "
      "(mul/div panic iff the 18-digit result coefficient exceeds i128, add/sub align by <= 10^18).",
      "MIR panic-site inventory + call-graph reachability + table-based discharge + magnitude-bound analysis over value-flow terms (static)", "DESIGN.md §4 C18, §10")
claim("C19", "proof",
      "Finite lattice: rustc's type-check verdict on 30 (quick) / all 128 (thorough) configurations; independent of sampling: feature closure ⊇ module-use graph per feature, module gates, "
      "no std:: in catalogue modules, all cfg(feature) sites classified, every body shared by a small and the full configuration has an identical fingerprint (additivity, incl. f64-all vs f64+serde), "
      "optional dependencies are only activated by their namesake feature. "
      "thorough adds per-feature configurations: quantity and derivation operators exposed.",
      "Trusted: cargo feature resolution, rustc type checking. `Results unchanged` is decided as body identity of shared items, not by evaluating an operation corpus.",
      "compiler verdict over the configuration lattice + feature/module graph + cross-configuration body identity (static)", "DESIGN.md §4 C19")

claim("C11", "translation_validation",
      "Translation validation of every expansion that exists: for every macro instance compiled anywhere in the workspace (catalogue, astronomical crate, fixtures) and for a generated "
      "witness corpus (attribute permutations, interleaved docs, non-ASCII symbols, 1000/1000./1000.0/1e3/1_000 and 0.001/1e-3 spellings, three code paths, both derivation forms), in both "
      "back-ends: declaration (syn scanner) vs expansion (type-checked program) agree on variants, names, symbols, prefixes, scales as the literal's value in the amount type, order, "
      "constants, code path and operator set; permutations of one base yield identical facts; the macro uses the stable sort and exactly three generators. Found and fixed a genuine defect "
      "(digit-separator / suffixed literals under fpdec).",
      "Quantifier over programs: only the instances in the tree and the fixed corpus (seeded by VERIF_SEED) — arbitrary random definitions are not decided. Trusted: rustc expansion and type checking.",
      "translation validation between two independent extractors + type-checked witness corpus (static)", "DESIGN.md §4 C11")
claim("C12", "other",
      "Compile-fail witnesses with compiling twins: 420 malformed definitions (every defect class of the property x base definitions with / without reference unit / derived; an argument-kind matrix "
      "over every argument position x wrong token kind; each also with documentation / lint attributes interleaved between the unit attributes) plus the 13 tests/ui "
      "programs, each type-checked on its own; verdict = rustc error with every primary span inside the offending definition, the well-formed twin compiles; for tests/ui the macro's own messages "
      "and positions recorded in the repository must still be reported.",
      "Quantifier over programs: only the witness corpus. Trusted: rustc/cargo JSON diagnostics.",
      "compile-fail witnesses with compiling twins (type-check verdict only)", "DESIGN.md §4 C12")

NOT_YET = "check not built yet (see DESIGN.md for the planned static analysis)"

m = {
    "version": 1,
    "setup_cmd": "./setup.sh",
    "hooks": {
        "guard": "quantities_verif",
        "enable": "(no hooks: nothing is executed or observed at run time; checks read /repo's source through rustc)",
        "baseline_off_cmd": "cd /repo && cargo test --workspace --no-fail-fast --offline",
        "source_commits": [],
        "add_only": True,
    },
    "engines": [
        {"name": "qfacts", "path": "engines/qfacts", "serves_properties": sorted(CLAIMS),
         "kind_free_text": "rustc_private driver (nightly) exporting ADTs, impl table, THIR trees with resolved callees, MIR call/assert inventory, format templates"},
        {"name": "declscan", "path": "engines/declscan", "serves_properties": sorted(CLAIMS),
         "kind_free_text": "syn-2 scanner of the un-expanded sources (attribute tables as written, cfg sites, module/use graph)"},
        {"name": "qcheck", "path": "qcheck", "serves_properties": sorted(CLAIMS),
         "kind_free_text": "python3 rule engine (stdlib only): constant folding, gated value-flow terms, normal forms, finite order domains, oracles"},
    ],
    "checks": [],
    "notes": "Static analysis only: no function of the repository is executed. See DESIGN.md.",
    "not_applicable": [],
}
for p in props:
    pid = p["id"]
    if pid in CLAIMS:
        c = CLAIMS[pid]
        e = {
            "property_id": pid,
            "quick_cmd": "./check %s --tier quick" % pid,
            "evidence_file": "evidence/%s.json" % pid,
            "replay_cmd_template": "./check %s --replay {path}" % pid,
            "engine": "qcheck",
            "level_claimed": {"category": c["category"], "text": c["text"], "design_ref": c["design_ref"]},
            "level_note": c["note"],
            "technique": c["technique"],
        }
        if c["thorough"]:
            e["thorough_cmd"] = "./check %s --tier thorough" % pid
        m["checks"].append(e)
    else:
        m["not_applicable"].append({"property_id": pid, "reason": NOT_YET})
json.dump(m, open(os.path.join(HERE, "MANIFEST.json"), "w"), indent=1, ensure_ascii=False)
print("claimed:", sorted(CLAIMS))
