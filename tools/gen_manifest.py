#!/usr/bin/env python3
"""Regenerates MANIFEST.json from the per-property claim table below."""
import json
import os

HERE = os.path.dirname(os.path.dirname(os.path.abspath(__file__)))
props = [json.loads(l) for l in open(os.path.join(HERE, "properties.jsonl"))]

CLAIMS = {}


def claim(pid, category, text, note, technique, design_ref, thorough=True):
    CLAIMS[pid] = dict(category=category, text=text, note=note, technique=technique, design_ref=design_ref, thorough=thorough)


claim("C07", "proof",
      "Finite table, decided completely: every generated name/symbol/si_prefix/scale constant of every catalogue and astronomical unit "
      "(folded from the type-checked program, f64 and decimal back-ends) equals the attribute row as written and an independently written "
      "exact-rational definition table; SI-prefix consistency by exact arithmetic. One recorded known finding (Sideral_Day).",
      "Trusted: rustc type checking/THIR construction, correctly rounded literal parsing (rustc and Python agree), the oracle table "
      "/verif/oracle/units.txt. Units unknown to the oracle are reported as unverified, not as violations.",
      "constant-table extraction from THIR + exact-rational oracle comparison (static)", "DESIGN.md §4 C07")

NOT_YET = "check not built yet (see DESIGN.md for the planned static analysis)"

m = {
    "version": 1,
    "setup_cmd": "./setup.sh",
    "hooks": {
        "guard": "quantities_verif",
        "enable": "(no hooks: nothing is executed or observed at run time; checks read /repo's source through rustc)",
        "baseline_off_cmd": "cd /repo && cargo test --workspace --no-fail-fast --offline",
        "source_commits": [],
        "add_only": True,
    },
    "engines": [
        {"name": "qfacts", "path": "engines/qfacts", "serves_properties": sorted(CLAIMS),
         "kind_free_text": "rustc_private driver (nightly) exporting ADTs, impl table, THIR trees with resolved callees, MIR call/assert inventory, format templates"},
        {"name": "declscan", "path": "engines/declscan", "serves_properties": sorted(CLAIMS),
         "kind_free_text": "syn-2 scanner of the un-expanded sources (attribute tables as written, cfg sites, module/use graph)"},
        {"name": "qcheck", "path": "qcheck", "serves_properties": sorted(CLAIMS),
         "kind_free_text": "python3 rule engine (stdlib only): constant folding, gated value-flow terms, normal forms, finite order domains, oracles"},
    ],
    "checks": [],
    "notes": "Static analysis only: no function of the repository is executed. See DESIGN.md.",
    "not_applicable": [],
}
for p in props:
    pid = p["id"]
    if pid in CLAIMS:
        c = CLAIMS[pid]
        e = {
            "property_id": pid,
            "quick_cmd": "./check %s --tier quick" % pid,
            "evidence_file": "evidence/%s.json" % pid,
            "replay_cmd_template": "./check %s --replay {path}" % pid,
            "engine": "qcheck",
            "level_claimed": {"category": c["category"], "text": c["text"], "design_ref": c["design_ref"]},
            "level_note": c["note"],
            "technique": c["technique"],
        }
        if c["thorough"]:
            e["thorough_cmd"] = "./check %s --tier thorough" % pid
        m["checks"].append(e)
    else:
        m["not_applicable"].append({"property_id": pid, "reason": NOT_YET})
json.dump(m, open(os.path.join(HERE, "MANIFEST.json"), "w"), indent=1, ensure_ascii=False)
print("claimed:", sorted(CLAIMS))
