#!/usr/bin/env python3
"""Rewrites DESIGN.md §12 (rules actually evaluated, with counts) from the evidence files."""
import glob
import json
import os

HERE = os.path.dirname(os.path.dirname(os.path.abspath(__file__)))
rows = ["| property | tier | configurations | obligations | rules (obligations per rule) |", "|---|---|---|---|---|"]
for f in sorted(glob.glob(os.path.join(HERE, "evidence", "C*.json"))):
    e = json.load(open(f))
    c = e["coverage"]
    rules = ", ".join("%s (%d)" % (r, n) for r, n in sorted(c.get("per_rule", {}).items()))
    rows.append("| %s | %s | %s | %d | %s |" % (e["property_id"], e["tier"], ", ".join(c.get("configurations", [])[:6]), c["obligations"], rules))
p = os.path.join(HERE, "DESIGN.md")
s = open(p).read()
if "<!-- RULE-TABLE-BEGIN -->" not in s:
    s += "\n## 12. Rules evaluated per property (from the last committed run)\n\n<!-- RULE-TABLE-BEGIN -->\n<!-- RULE-TABLE-END -->\n"
a, b = s.index("<!-- RULE-TABLE-BEGIN -->"), s.index("<!-- RULE-TABLE-END -->")
s = s[:a] + "<!-- RULE-TABLE-BEGIN -->\n" + "\n".join(rows) + "\n" + s[b:]
open(p, "w").write(s)
print(len(rows) - 2, "rows")
