#!/bin/sh
# Runs every registered check (quick tier by default) against /repo and validates the evidence files.
cd "$(dirname "$0")/.." || exit 2
TIER=${1:-quick}
rc=0
for p in C01 C02 C03 C04 C05 C06 C07 C08 C09 C10 C11 C12 C13 C14 C15 C16 C17 C18 C19; do
  ./check $p --tier $TIER | tail -1 || rc=1
done
for f in evidence/C*.json; do
  python3-vt -c "
import json,jsonschema,sys
jsonschema.validate(json.load(open('$f')),json.load(open('/root/.vp/EVIDENCE.schema.json')))" || { echo "BAD EVIDENCE $f"; rc=1; }
done
python3-vt -c "
import json,jsonschema
jsonschema.validate(json.load(open('MANIFEST.json')),json.load(open('/root/.vp/MANIFEST.schema.json')))" || rc=1
exit $rc
