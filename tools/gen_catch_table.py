#!/usr/bin/env python3
"""Rewrites the table in DESIGN.md §11 from seeded/*/meta.json."""
import glob
import json
import os
import re

HERE = os.path.dirname(os.path.dirname(os.path.abspath(__file__)))
rows = ["| seeded change | property | what was changed | needs to manifest | caught by (rules) |", "|---|---|---|---|---|"]
for d in sorted(glob.glob(os.path.join(HERE, "seeded", "*"))):
    m = json.load(open(os.path.join(d, "meta.json")))
    cb = m.get("caught_by")
    caught = "**not caught** (undecided clause)" if cb == [] else "%s (%s)" % (", ".join(cb), ", ".join(m.get("caught_rules", [])))
    def short(t, n):
        t = re.sub(r"\s+", " ", t).replace("|", "/")
        return t if len(t) <= n else t[: n - 1] + "…"
    rows.append("| `%s` | %s | %s | %s | %s |" % (os.path.basename(d), m["property"], short(m["summary"], 200), short(m["needs_to_manifest"], 160), caught))
p = os.path.join(HERE, "DESIGN.md")
s = open(p).read()
a, b = s.index("<!-- CATCH-TABLE-BEGIN -->"), s.index("<!-- CATCH-TABLE-END -->")
s = s[:a] + "<!-- CATCH-TABLE-BEGIN -->\n" + "\n".join(rows) + "\n" + s[b:]
open(p, "w").write(s)
print(len(rows) - 2, "rows")
