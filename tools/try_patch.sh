#!/bin/sh
# tools/try_patch.sh <patch.diff|-e 'sed expr' file> -- <Cxx>...
# Applies a change to a scratch copy of /repo (never to /repo itself) and runs
# the given checks against it. Evidence goes to a scratch dir.
set -e
PATCH="$1"; shift
[ "$1" = "--" ] && shift
S=$(mktemp -d /tmp/qv-scratch.XXXXXX)
trap 'cd /verif && python3 -m qcheck.gc "$S/repo"; rm -rf "$S"' EXIT
rsync -a --exclude target --exclude .git /repo/ "$S/repo/"
(cd "$S/repo" && patch -p1 -s < "$PATCH")
mkdir -p "$S/evid"
rc=0
for p in "$@"; do
  QV_REPO="$S/repo" QV_EVID="$S/evid" /verif/check "$p" ${TIER:+--tier $TIER} || rc=1
done
exit $rc
