#!/usr/bin/env python3
"""Confirms a seeded change independently (in a scratch worktree of /repo,
removed afterwards): demo passes without the patch, the baseline suite still
passes with it (only the always-failing trybuild `ui` test may fail), and the
demo fails with it.

usage: verify_seed.py <patch.diff> <demo_test.rs> [--features "<f>"]... """
import os
import re
import shutil
import subprocess
import sys

patch, demo = sys.argv[1], sys.argv[2]
featsets = []
a = sys.argv[3:]
while a:
    if a[0] == "--features":
        featsets.append(a[1])
        a = a[2:]
    else:
        a = a[1:]
if not featsets:
    featsets = [""]
wt = "/tmp/vs-%d" % os.getpid()
tgt = "/tmp/vs-tgt"
env = dict(os.environ, CARGO_TARGET_DIR=tgt, CARGO_NET_OFFLINE="true")


def sh(cmd, cwd=wt):
    p = subprocess.run(cmd, cwd=cwd, env=env, shell=True, stdout=subprocess.PIPE, stderr=subprocess.STDOUT, text=True)
    return p.returncode, p.stdout


subprocess.run(["git", "-C", "/repo", "worktree", "add", "-q", wt, "HEAD"], check=True)
ok = True
try:
    name = os.path.basename(demo)[:-3]
    shutil.copy(demo, os.path.join(wt, "tests", os.path.basename(demo)))

    def run_demo():
        res = []
        for f in featsets:
            rc, out = sh("cargo test --offline %s --test %s %s 2>&1" % (os.environ.get("SEED_CARGO_ARGS", ""), name, ("--features '%s'" % f) if f else ""))
            m = re.findall(r"test result: (\w+)\. (\d+) passed; (\d+) failed", out)
            res.append((f, rc, m[-1] if m else out[-300:]))
        return res
    before = run_demo()
    print("demo WITHOUT patch:", before)
    if any(rc != 0 for _, rc, _ in before):
        ok = False
        print("  !! demo does not pass on the unchanged tree")
    rc, out = sh("git apply %s" % patch)
    if rc != 0:
        print("patch does not apply:", out)
        ok = False
    else:
        os.remove(os.path.join(wt, "tests", os.path.basename(demo)))
        rc, out = sh("cargo test --workspace --no-fail-fast --offline 2>&1")
        failed = sorted(set(re.findall(r"^test (\S+) \.\.\. FAILED", out, re.M)))
        npass = sum(int(x) for x in re.findall(r"test result: \w+\. (\d+) passed", out))
        print("baseline WITH patch: %d passed, failed: %s" % (npass, failed))
        if [f for f in failed if not f.endswith("ui")] or npass < 65 or "error: could not compile" in out:
            ok = False
            print("  !! baseline suite broken by the patch")
        shutil.copy(demo, os.path.join(wt, "tests", os.path.basename(demo)))
        after = run_demo()
        print("demo WITH patch:", after)
        if all(rc == 0 for _, rc, _ in after):
            ok = False
            print("  !! demo does not fail with the patch")
finally:
    subprocess.run(["git", "-C", "/repo", "worktree", "remove", "--force", wt])
print("CONFIRMED" if ok else "NOT CONFIRMED")
sys.exit(0 if ok else 1)
