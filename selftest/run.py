#!/usr/bin/env python3
"""Self-test of the checkers (not a registered check): fires on every mutant,
stays silent on every behaviour-preserving edit.  Works on scratch copies of
/repo under mktemp, removed immediately afterwards.

usage: selftest/run.py [mutants|preserving|seeded|all] [name...]"""
import glob
import json
import os
import shutil
import subprocess
import sys
import tempfile
from concurrent.futures import ThreadPoolExecutor

HERE = os.path.dirname(os.path.abspath(__file__))
VERIF = os.path.dirname(HERE)
ALL = ["C%02d" % i for i in range(1, 20)]


def run_patch(patch, props, strip=1):
    s = tempfile.mkdtemp(prefix="qv-selftest.")
    try:
        subprocess.run(["rsync", "-a", "--exclude", "target", "--exclude", ".git", "/repo/", s + "/repo/"], check=True)
        r = subprocess.run(["patch", "-p%d" % strip, "-s", "-i", patch], cwd=s + "/repo", stdout=subprocess.PIPE, stderr=subprocess.STDOUT, text=True)
        if r.returncode != 0:
            return {"error": "patch does not apply: " + r.stdout[-300:]}
        os.makedirs(s + "/evid")
        res = {}
        for p in props:
            env = dict(os.environ, QV_REPO=s + "/repo", QV_EVID=s + "/evid")
            r = subprocess.run([os.path.join(VERIF, "check"), p], env=env, stdout=subprocess.PIPE, stderr=subprocess.STDOUT, text=True)
            rules = sorted({l.split("rule=")[1].split()[0] for l in r.stdout.splitlines() if l.strip().startswith("rule=")})
            res[p] = {"rc": r.returncode, "rules": rules, "tail": r.stdout.strip().splitlines()[-1] if r.stdout.strip() else ""}
        return res
    finally:
        subprocess.run(["python3", "-m", "qcheck.gc", s + "/repo"], cwd=VERIF)
        shutil.rmtree(s, ignore_errors=True)


def main():
    what = sys.argv[1] if len(sys.argv) > 1 else "all"
    names = sys.argv[2:]
    cat = json.load(open(os.path.join(HERE, "catalogue.json")))
    jobs = []
    if what in ("mutants", "all"):
        for n, props in cat["mutants"].items():
            if not names or n in names:
                jobs.append(("mutant", n, os.path.join(HERE, "mutants", n + ".diff"), props))
    if what in ("seeded", "all"):
        for d in sorted(glob.glob(os.path.join(VERIF, "seeded", "*"))):
            m = os.path.join(d, "meta.json")
            if os.path.exists(m) and (not names or os.path.basename(d) in names):
                meta = json.load(open(m))
                cb = meta.get("caught_by")
                if cb == []:
                    print("skip seeded %-24s recorded as NOT caught (undecided clause): %s" % (os.path.basename(d), meta.get("how_caught", "")[:90]))
                    continue
                jobs.append(("seeded", os.path.basename(d), os.path.join(d, "patch.diff"), cb or [meta["property"]]))
    if what in ("preserving", "all"):
        for f in sorted(glob.glob(os.path.join(HERE, "preserving", "*.diff")) + glob.glob(os.path.join(HERE, "preserving_ext", "*.diff"))):
            n = os.path.basename(f)[:-5]
            if not names or n in names:
                jobs.append(("preserving", n, f, ALL))
    if what == "ext":
        # behaviour-preserving patches from outside the catalogue: run.py ext <dir>
        for f in sorted(glob.glob(os.path.join(names[0], "*.diff"))):
            jobs.append(("preserving", os.path.basename(os.path.dirname(f)) + "/" + os.path.basename(f)[:-5], f, ALL))
    failures = 0
    with ThreadPoolExecutor(max_workers=4) as ex:
        for (kind, n, f, props), res in zip(jobs, ex.map(lambda j: run_patch(j[2], j[3]), jobs)):
            if "error" in res:
                print("ERROR %s %s: %s" % (kind, n, res["error"]))
                failures += 1
                continue
            if kind == "preserving":
                noisy = {p: r for p, r in res.items() if r["rc"] != 0}
                print("%s preserving %-28s %s" % ("ok  " if not noisy else "FAIL", n, "" if not noisy else {p: r["rules"] for p, r in noisy.items()}))
                failures += bool(noisy)
            else:
                missed = [p for p, r in res.items() if r["rc"] == 0]
                print("%s %-9s %-24s %s" % ("ok  " if not missed else "MISS", kind, n, {p: r["rules"] for p, r in res.items()}))
                failures += bool(missed)
    print("selftest: %d job(s), %d failure(s)" % (len(jobs), failures))
    sys.exit(1 if failures else 0)


if __name__ == "__main__":
    main()
