//! qfacts — a resolved-program exporter for the static checks in /verif.
//!
//! Runs as RUSTC_WORKSPACE_WRAPPER (or RUSTC_WRAPPER with QFACTS_CRATES) and
//! writes one JSON fact file per compiled crate into $QFACTS_OUT.  It contains
//! no property logic: it exports ADTs, impls, THIR expression trees with
//! resolved callees, the MIR call/assert inventory and format templates.
#![feature(rustc_private)]
#![allow(clippy::all)]

extern crate rustc_abi;
extern crate rustc_ast;
extern crate rustc_ast_pretty;
extern crate rustc_data_structures;
extern crate rustc_driver;
extern crate rustc_hir;
extern crate rustc_interface;
extern crate rustc_middle;
extern crate rustc_session;
extern crate rustc_span;

mod json;
mod common;
mod thir_export;
mod items;
mod mir_inv;
mod fmt_tpl;

use json::J;
use rustc_driver::Compilation;
use rustc_interface::interface::Compiler;
use rustc_middle::ty::TyCtxt;

pub struct Facts {
    pub fmt_templates: Vec<J>,
    pub bodies: Vec<J>,
}

struct Cb {
    facts: Facts,
    src: String,
}

impl rustc_driver::Callbacks for Cb {
    fn after_expansion<'tcx>(
        &mut self,
        _compiler: &Compiler,
        tcx: TyCtxt<'tcx>,
    ) -> Compilation {
        // 1. format templates from the expanded AST (before it is stolen)
        self.facts.fmt_templates = fmt_tpl::collect(tcx);
        // 2. THIR of every body (before MIR building steals it)
        self.facts.bodies = thir_export::collect(tcx);
        Compilation::Continue
    }

    fn after_analysis<'tcx>(
        &mut self,
        _compiler: &Compiler,
        tcx: TyCtxt<'tcx>,
    ) -> Compilation {
        let mut root = J::obj();
        let crate_name =
            tcx.crate_name(rustc_hir::def_id::LOCAL_CRATE).to_string();
        root.put("crate", J::s(crate_name.clone()));
        root.put("is_test", J::Bool(tcx.sess.opts.test));
        root.put(
            "nonce",
            J::s(std::env::var("QFACTS_NONCE").unwrap_or_default()),
        );
        root.put(
            "config",
            J::s(std::env::var("QFACTS_CONFIG").unwrap_or_default()),
        );
        let mut cfgs: Vec<String> = tcx
            .sess
            .config
            .iter()
            .filter_map(|(k, v)| {
                if k.as_str() == "feature" {
                    v.map(|v| v.to_string())
                } else {
                    None
                }
            })
            .collect();
        cfgs.sort();
        root.put("features", J::Arr(cfgs.into_iter().map(J::s).collect()));
        root.put("src", J::s(self.src.clone()));
        root.put(
            "cwd",
            J::s(std::env::current_dir().map(|p| p.display().to_string()).unwrap_or_default()),
        );
        items::collect(tcx, &mut root);
        root.put(
            "bodies",
            J::Arr(std::mem::take(&mut self.facts.bodies)),
        );
        root.put(
            "fmt_templates",
            J::Arr(std::mem::take(&mut self.facts.fmt_templates)),
        );
        root.put("mir", mir_inv::collect(tcx));
        let mut s = String::new();
        root.write(&mut s);
        if let Ok(dir) = std::env::var("QFACTS_OUT") {
            let test = if tcx.sess.opts.test { "-test" } else { "" };
            let path = format!(
                "{}/{}{}-{}.json",
                dir,
                crate_name,
                test,
                std::process::id()
            );
            std::fs::write(&path, s).expect("qfacts: cannot write fact file");
        }
        Compilation::Continue
    }
}

struct NoCb;
impl rustc_driver::Callbacks for NoCb {}

fn main() {
    let mut args: Vec<String> = std::env::args().collect();
    // invoked as a (workspace) wrapper: argv[1] is the real rustc path
    if args.len() > 1
        && (args[1].ends_with("rustc") || args[1].contains("/rustc"))
    {
        args.remove(1);
    }
    let crate_name = args
        .iter()
        .position(|a| a == "--crate-name")
        .and_then(|i| args.get(i + 1))
        .cloned();
    let wanted = match (std::env::var("QFACTS_CRATES"), &crate_name) {
        (Ok(list), Some(n)) => list.split(',').any(|c| c == n),
        (Ok(_), None) => false,
        (Err(_), Some(n)) => n != "___" && n != "build_script_build",
        (Err(_), None) => false,
    };
    let is_probe = args.iter().any(|a| a.starts_with("--print") || a == "-vV");
    if wanted && !is_probe && std::env::var("QFACTS_OUT").is_ok() {
        let src = args
            .iter()
            .skip(1)
            .find(|a| a.ends_with(".rs") && !a.starts_with('-'))
            .cloned()
            .unwrap_or_default();
        let mut cb = Cb {
            src,
            facts: Facts {
                fmt_templates: vec![],
                bodies: vec![],
            },
        };
        rustc_driver::run_compiler(&args, &mut cb);
    } else {
        rustc_driver::run_compiler(&args, &mut NoCb);
    }
}
