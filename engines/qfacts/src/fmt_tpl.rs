//! format_args! templates from the expanded AST.

use crate::json::J;
use rustc_ast as ast;
use rustc_ast::visit::{self, Visitor};
use rustc_middle::ty::TyCtxt;

struct V<'a, 'tcx> {
    tcx: TyCtxt<'tcx>,
    out: &'a mut Vec<J>,
    stack: Vec<String>,
}

impl<'a, 'ast, 'tcx> Visitor<'ast> for V<'a, 'tcx> {
    fn visit_item(&mut self, i: &'ast ast::Item) {
        let name = match i.kind.ident() {
            Some(id) => id.to_string(),
            None => match &i.kind {
                ast::ItemKind::Impl(imp) => {
                    let t = rustc_ast_pretty::pprust::ty_to_string(&imp.self_ty);
                    match &imp.of_trait {
                        Some(tr) => format!(
                            "<impl {} for {}>",
                            rustc_ast_pretty::pprust::path_to_string(&tr.trait_ref.path),
                            t
                        ),
                        None => format!("<impl {}>", t),
                    }
                }
                _ => "_".to_string(),
            },
        };
        self.stack.push(name);
        visit::walk_item(self, i);
        self.stack.pop();
    }
    fn visit_assoc_item(&mut self, i: &'ast ast::AssocItem, ctxt: visit::AssocCtxt) {
        let name = i.kind.ident().map(|x| x.to_string()).unwrap_or("_".into());
        self.stack.push(name);
        visit::walk_assoc_item(self, i, ctxt);
        self.stack.pop();
    }
    fn visit_expr(&mut self, e: &'ast ast::Expr) {
        if let ast::ExprKind::FormatArgs(fa) = &e.kind {
            let mut o = J::obj();
            o.put("item", J::s(self.stack.join("::")));
            o.put("sp", crate::common::span_j(self.tcx, e.span));
            let mut pieces = vec![];
            for p in fa.template.iter() {
                match p {
                    ast::FormatArgsPiece::Literal(s) => {
                        pieces.push(J::obj().set("lit", J::s(s.to_string())));
                    }
                    ast::FormatArgsPiece::Placeholder(ph) => {
                        let mut pj = J::obj();
                        pj.put("arg", J::s(format!("{:?}", ph.argument.index)));
                        pj.put("trait", J::s(format!("{:?}", ph.format_trait)));
                        pj.put("precision", J::s(format!("{:?}", ph.format_options.precision)));
                        pj.put("width", J::s(format!("{:?}", ph.format_options.width)));
                        pj.put("fill", J::s(format!("{:?}", ph.format_options.fill)));
                        pj.put("alignment", J::s(format!("{:?}", ph.format_options.alignment)));
                        pj.put("sign", J::s(format!("{:?}", ph.format_options.sign)));
                        pj.put("alternate", J::Bool(ph.format_options.alternate));
                        pj.put("zero_pad", J::Bool(ph.format_options.zero_pad));
                        pieces.push(pj);
                    }
                }
            }
            o.put("pieces", J::Arr(pieces));
            let mut args = vec![];
            for a in fa.arguments.all_args() {
                args.push(J::s(rustc_ast_pretty::pprust::expr_to_string(&a.expr)));
            }
            o.put("args", J::Arr(args));
            self.out.push(o);
        }
        visit::walk_expr(self, e);
    }
}

pub fn collect(tcx: TyCtxt<'_>) -> Vec<J> {
    let mut out = vec![];
    let resolver = tcx.resolver_for_lowering().borrow();
    let krate: &ast::Crate = &resolver.1;
    let mut v = V { tcx, out: &mut out, stack: vec![] };
    visit::walk_crate(&mut v, krate);
    drop(resolver);
    out
}
