//! MIR inventory: calls (resolved) and assert terminators of every body.

use crate::common::*;
use crate::json::J;
use rustc_hir::def::DefKind;
use rustc_middle::mir::{self, TerminatorKind};
use rustc_middle::ty::{self, TyCtxt};

fn const_bits<'tcx>(tcx: TyCtxt<'tcx>, did: rustc_hir::def_id::DefId, op: &mir::Operand<'tcx>) -> Option<u128> {
    if let mir::Operand::Constant(c) = op {
        let env = ty::TypingEnv::post_analysis(tcx, did);
        return c.const_.try_eval_scalar_int(tcx, env).map(|s| s.to_bits_unchecked());
    }
    None
}

/// Boolean locals of one block whose value follows from constants alone.
fn block_bools<'tcx>(
    tcx: TyCtxt<'tcx>,
    did: rustc_hir::def_id::DefId,
    data: &mir::BasicBlockData<'tcx>,
) -> std::collections::HashMap<mir::Local, Option<bool>> {
    let mut m: std::collections::HashMap<mir::Local, Option<bool>> = Default::default();
    for st in &data.statements {
        if let mir::StatementKind::Assign(b) = &st.kind {
            let (place, rv) = &**b;
            let Some(l) = place.as_local() else { continue };
            let mut val = None;
            if let mir::Rvalue::BinaryOp(op, ops) = rv {
                let (x, y) = &**ops;
                let lk = |o: &mir::Operand<'tcx>| -> Option<bool> {
                    match o {
                        mir::Operand::Copy(p) | mir::Operand::Move(p) => {
                            p.as_local().and_then(|l| m.get(&l).copied().flatten())
                        }
                        _ => const_bits(tcx, did, o).map(|b| b != 0),
                    }
                };
                match op {
                    mir::BinOp::Eq | mir::BinOp::Ne => {
                        if let (Some(a), Some(b)) = (const_bits(tcx, did, x), const_bits(tcx, did, y)) {
                            val = Some((a == b) == matches!(op, mir::BinOp::Eq));
                        }
                    }
                    mir::BinOp::BitAnd => {
                        let (a, b) = (lk(x), lk(y));
                        if a == Some(false) || b == Some(false) {
                            val = Some(false);
                        } else if a == Some(true) && b == Some(true) {
                            val = Some(true);
                        }
                    }
                    mir::BinOp::BitOr => {
                        let (a, b) = (lk(x), lk(y));
                        if a == Some(true) || b == Some(true) {
                            val = Some(true);
                        } else if a == Some(false) && b == Some(false) {
                            val = Some(false);
                        }
                    }
                    _ => {}
                }
            }
            m.insert(l, val);
        }
    }
    m
}

pub fn collect<'tcx>(tcx: TyCtxt<'tcx>) -> J {
    let mut out = vec![];
    for def in tcx.hir_body_owners() {
        let did = def.to_def_id();
        let kind = tcx.def_kind(did);
        let body: &mir::Body<'tcx> = match kind {
            DefKind::Fn | DefKind::AssocFn | DefKind::Closure => {
                tcx.optimized_mir(did)
            }
            DefKind::Const { .. } | DefKind::AssocConst { .. } | DefKind::Static { .. } => {
                tcx.mir_for_ctfe(did)
            }
            _ => continue,
        };
        let mut o = J::obj();
        o.put("def", J::s(path(tcx, did)));
        o.put("kind", J::s(format!("{:?}", kind)));
        o.put("n_blocks", J::Int(body.basic_blocks.len() as i128));
        let mut calls = vec![];
        let mut asserts = vec![];
        let mut has_loop = false;
        for (bb, data) in body.basic_blocks.iter_enumerated() {
            let term = data.terminator();
            // back edge => loop
            for s in term.successors() {
                if s <= bb && !data.is_cleanup {
                    has_loop = true;
                }
            }
            match &term.kind {
                TerminatorKind::Call { func, target, .. } => {
                    let mut c = J::obj();
                    c.put("sp", span_j(tcx, term.source_info.span));
                    c.put("x", J::Bool(term.source_info.span.from_expansion()));
                    c.put("expn", expn_j(term.source_info.span));
                    c.put("cleanup", J::Bool(data.is_cleanup));
                    c.put("diverges", J::Bool(target.is_none()));
                    let fty = func.ty(&body.local_decls, tcx);
                    if let ty::FnDef(d, a) = fty.kind() {
                        c.put("fn", fn_ref_j(tcx, did, *d, a));
                    } else {
                        c.put("fn_ty", ty_j(tcx, fty));
                    }
                    calls.push(c);
                }
                TerminatorKind::Assert { msg, cond, expected, .. } => {
                    let mut a = J::obj();
                    // the condition folded over the constants of this block
                    // (`Eq(const 3, const 0)`, `BitAnd(false, _)`): an assert
                    // whose condition is statically `expected` cannot fire
                    let known = block_bools(tcx, did, data);
                    let cv = match cond {
                        mir::Operand::Copy(p) | mir::Operand::Move(p) => {
                            p.as_local().and_then(|l| known.get(&l).copied().flatten())
                        }
                        _ => None,
                    };
                    a.put("never_fires", J::Bool(cv == Some(*expected)));
                    a.put("sp", span_j(tcx, term.source_info.span));
                    a.put("x", J::Bool(term.source_info.span.from_expansion()));
                    a.put("expn", expn_j(term.source_info.span));
                    a.put("cleanup", J::Bool(data.is_cleanup));
                    let dbg = format!("{:?}", msg);
                    a.put(
                        "kind",
                        J::s(dbg.split(|c: char| !c.is_alphanumeric()).next().unwrap_or("")),
                    );
                    asserts.push(a);
                }
                _ => {}
            }
        }
        o.put("calls", J::Arr(calls));
        o.put("asserts", J::Arr(asserts));
        o.put("has_loop", J::Bool(has_loop));
        out.push(o);
    }
    J::Arr(out)
}
