//! MIR inventory: calls (resolved) and assert terminators of every body.

use crate::common::*;
use crate::json::J;
use rustc_hir::def::DefKind;
use rustc_middle::mir::{self, TerminatorKind};
use rustc_middle::ty::{self, TyCtxt};

pub fn collect<'tcx>(tcx: TyCtxt<'tcx>) -> J {
    let mut out = vec![];
    for def in tcx.hir_body_owners() {
        let did = def.to_def_id();
        let kind = tcx.def_kind(did);
        let body: &mir::Body<'tcx> = match kind {
            DefKind::Fn | DefKind::AssocFn | DefKind::Closure => {
                tcx.optimized_mir(did)
            }
            DefKind::Const { .. } | DefKind::AssocConst { .. } | DefKind::Static { .. } => {
                tcx.mir_for_ctfe(did)
            }
            _ => continue,
        };
        let mut o = J::obj();
        o.put("def", J::s(path(tcx, did)));
        o.put("kind", J::s(format!("{:?}", kind)));
        o.put("n_blocks", J::Int(body.basic_blocks.len() as i128));
        let mut calls = vec![];
        let mut asserts = vec![];
        let mut has_loop = false;
        for (bb, data) in body.basic_blocks.iter_enumerated() {
            let term = data.terminator();
            // back edge => loop
            for s in term.successors() {
                if s <= bb && !data.is_cleanup {
                    has_loop = true;
                }
            }
            match &term.kind {
                TerminatorKind::Call { func, target, .. } => {
                    let mut c = J::obj();
                    c.put("sp", span_j(tcx, term.source_info.span));
                    c.put("x", J::Bool(term.source_info.span.from_expansion()));
                    c.put("expn", expn_j(term.source_info.span));
                    c.put("cleanup", J::Bool(data.is_cleanup));
                    c.put("diverges", J::Bool(target.is_none()));
                    let fty = func.ty(&body.local_decls, tcx);
                    if let ty::FnDef(d, a) = fty.kind() {
                        c.put("fn", fn_ref_j(tcx, did, *d, a));
                    } else {
                        c.put("fn_ty", ty_j(tcx, fty));
                    }
                    calls.push(c);
                }
                TerminatorKind::Assert { msg, .. } => {
                    let mut a = J::obj();
                    a.put("sp", span_j(tcx, term.source_info.span));
                    a.put("x", J::Bool(term.source_info.span.from_expansion()));
                    a.put("expn", expn_j(term.source_info.span));
                    a.put("cleanup", J::Bool(data.is_cleanup));
                    let dbg = format!("{:?}", msg);
                    a.put(
                        "kind",
                        J::s(dbg.split(|c: char| !c.is_alphanumeric()).next().unwrap_or("")),
                    );
                    asserts.push(a);
                }
                _ => {}
            }
        }
        o.put("calls", J::Arr(calls));
        o.put("asserts", J::Arr(asserts));
        o.put("has_loop", J::Bool(has_loop));
        out.push(o);
    }
    J::Arr(out)
}
