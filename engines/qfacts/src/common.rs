//! Shared helpers: def paths, types, generic args, spans, callee resolution.

use crate::json::J;
use rustc_hir::def::DefKind;
use rustc_hir::def_id::DefId;
use rustc_middle::ty::print::{with_no_trimmed_paths, with_no_visible_paths, with_resolve_crate_name};
use rustc_middle::ty::{self, GenericArgsRef, Ty, TyCtxt};
use rustc_span::Span;

pub fn path(tcx: TyCtxt<'_>, def: DefId) -> String {
    full(|| tcx.def_path_str(def))
}

/// Name of an item, or an empty string for items that have none (anonymous
/// constants, closures, impl blocks); `TyCtxt::item_name` aborts on those.
pub fn name_of(tcx: TyCtxt<'_>, def: DefId) -> String {
    tcx.opt_item_name(def).map(|n| n.to_string()).unwrap_or_default()
}

pub fn full<T>(f: impl FnOnce() -> T) -> T {
    with_resolve_crate_name!(with_no_visible_paths!(with_no_trimmed_paths!(f())))
}

pub fn span_j(tcx: TyCtxt<'_>, sp: Span) -> J {
    let sm = tcx.sess.source_map();
    // for macro-generated code report the outermost call site
    let root = sp.source_callsite();
    let lo = sm.lookup_char_pos(root.lo());
    let file = format!("{}", lo.file.name.prefer_local_unconditionally());
    J::s(format!("{}:{}:{}", file, lo.line, lo.col.0 + 1))
}

pub fn expn_j(sp: Span) -> J {
    if !sp.from_expansion() {
        return J::Null;
    }
    let d = sp.ctxt().outer_expn_data();
    J::s(format!("{:?}", d.kind))
}

/// Names of the macros whose expansions enclose `sp`, innermost first
/// (`cfg`, `debug_assert` for the condition literal of a `debug_assert!`).
pub fn expn_chain_j(sp: Span) -> J {
    let mut out = vec![];
    let mut cur = sp;
    let mut n = 0;
    while cur.from_expansion() && n < 16 {
        let d = cur.ctxt().outer_expn_data();
        if let rustc_span::ExpnKind::Macro(_, name) = d.kind {
            out.push(J::s(name.to_string()));
        } else {
            out.push(J::s(format!("{:?}", d.kind)));
        }
        cur = d.call_site;
        n += 1;
    }
    J::Arr(out)
}

pub fn ty_j<'tcx>(tcx: TyCtxt<'tcx>, t: Ty<'tcx>) -> J {
    let s = full(|| format!("{}", t));
    let mut o = J::obj();
    match t.kind() {
        ty::Bool | ty::Char | ty::Int(_) | ty::Uint(_) | ty::Float(_)
        | ty::Str | ty::Never => {
            o.put("k", J::s("prim"));
        }
        ty::Adt(adt, args) => {
            o.put("k", J::s("adt"));
            o.put("path", J::s(path(tcx, adt.did())));
            o.put("args", args_j(tcx, args));
        }
        ty::Ref(_, inner, m) => {
            o.put("k", J::s("ref"));
            o.put("mut", J::Bool(m.is_mut()));
            o.put("ty", ty_j(tcx, *inner));
        }
        ty::Param(p) => {
            o.put("k", J::s("param"));
            o.put("name", J::s(p.name.to_string()));
        }
        ty::Alias(alias) => {
            o.put("k", J::s("alias"));
            o.put("path", J::s(path(tcx, alias.kind.def_id())));
            o.put("args", args_j(tcx, alias.args));
        }
        ty::FnDef(def, args) => {
            o.put("k", J::s("fndef"));
            o.put("path", J::s(path(tcx, *def)));
            o.put("args", args_j(tcx, args));
        }
        ty::Tuple(ts) => {
            o.put("k", J::s("tuple"));
            o.put("elems", J::Arr(ts.iter().map(|t| ty_j(tcx, t)).collect()));
        }
        ty::Array(e, n) => {
            o.put("k", J::s("array"));
            o.put("ty", ty_j(tcx, *e));
            o.put("len", J::s(format!("{}", n)));
        }
        ty::Slice(e) => {
            o.put("k", J::s("slice"));
            o.put("ty", ty_j(tcx, *e));
        }
        ty::Closure(def, _) => {
            o.put("k", J::s("closure"));
            o.put("path", J::s(path(tcx, *def)));
        }
        _ => {
            o.put("k", J::s("other"));
        }
    }
    o.put("s", J::s(s));
    o
}

pub fn args_j<'tcx>(tcx: TyCtxt<'tcx>, args: GenericArgsRef<'tcx>) -> J {
    let mut v = vec![];
    for a in args.iter() {
        if let Some(t) = a.as_type() {
            v.push(ty_j(tcx, t));
        } else if let Some(c) = a.as_const() {
            v.push(J::obj().set("k", J::s("const")).set("s", J::s(format!("{}", c))));
        }
        // lifetimes are dropped
    }
    J::Arr(v)
}

/// Description of a function item reference: declared path, generic args,
/// owning trait (if a trait method), and the resolved instance if resolvable
/// in the typing environment of `owner`.
pub fn fn_ref_j<'tcx>(
    tcx: TyCtxt<'tcx>,
    owner: DefId,
    def: DefId,
    args: GenericArgsRef<'tcx>,
) -> J {
    let mut o = J::obj();
    o.put("path", J::s(path(tcx, def)));
    o.put("name", J::s(name_of(tcx, def)));
    o.put("args", args_j(tcx, args));
    o.put("local", J::Bool(def.is_local()));
    if let Some(ai) = tcx.opt_associated_item(def) {
        let container = tcx.parent(def);
        match tcx.def_kind(container) {
            DefKind::Trait => {
                o.put("trait", J::s(path(tcx, container)));
                o.put(
                    "has_default",
                    J::Bool(ai.defaultness(tcx).has_value()),
                );
            }
            DefKind::Impl { of_trait } => {
                o.put("impl_of_trait", J::Bool(of_trait));
                o.put("impl_index", J::Int(container.index.as_u32() as i128));
                o.put("impl_crate_local", J::Bool(container.is_local()));
                if of_trait {
                    let tr = tcx.impl_trait_ref(container).skip_binder();
                    o.put("impl_trait", J::s(path(tcx, tr.def_id)));
                    o.put("impl_trait_args", args_j(tcx, tr.args));
                } else {
                    let t = tcx.type_of(container).skip_binder();
                    o.put("impl_self", ty_j(tcx, t));
                }
            }
            _ => {}
        }
    }
    // resolution
    let env = ty::TypingEnv::post_analysis(tcx, owner);
    if let Ok(Some(inst)) = ty::Instance::try_resolve(tcx, env, def, args) {
        let rdef = inst.def_id();
        let mut r = J::obj();
        r.put("path", J::s(path(tcx, rdef)));
        r.put("args", args_j(tcx, inst.args));
        r.put("local", J::Bool(rdef.is_local()));
        r.put("kind", J::s(format!("{:?}", inst.def).split('(').next().unwrap_or("").to_string()));
        if tcx.opt_associated_item(rdef).is_some() {
            let container = tcx.parent(rdef);
            match tcx.def_kind(container) {
                DefKind::Trait => {
                    r.put("trait", J::s(path(tcx, container)));
                }
                DefKind::Impl { of_trait } => {
                    r.put("impl_index", J::Int(container.index.as_u32() as i128));
                    r.put("impl_crate_local", J::Bool(container.is_local()));
                    if of_trait {
                        let tr = tcx.impl_trait_ref(container).skip_binder();
                        r.put("impl_trait", J::s(path(tcx, tr.def_id)));
                    }
                    let t = tcx.type_of(container).skip_binder();
                    r.put("impl_self", ty_j(tcx, t));
                }
                _ => {}
            }
        }
        o.put("resolved", r);
    }
    o
}
