//! ADTs, traits, impls, consts of the local crate.

use crate::common::*;
use crate::json::J;
use rustc_hir::def::DefKind;
use rustc_middle::ty::{self, TyCtxt};

pub fn collect<'tcx>(tcx: TyCtxt<'tcx>, root: &mut J) {
    let mut adts = vec![];
    let mut impls = vec![];
    let mut traits = vec![];
    let mut consts = vec![];
    let mut fns = vec![];
    for def in tcx.hir_crate_items(()).definitions() {
        let did = def.to_def_id();
        match tcx.def_kind(did) {
            DefKind::Struct | DefKind::Enum => {
                let adt = tcx.adt_def(did);
                let mut o = J::obj();
                o.put("path", J::s(path(tcx, did)));
                o.put("name", J::s(name_of(tcx, did)));
                o.put("is_enum", J::Bool(adt.is_enum()));
                o.put("span", span_j(tcx, tcx.def_span(did)));
                o.put("expn", expn_j(tcx.def_span(did)));
                o.put("vis", J::s(format!("{:?}", tcx.visibility(did))));
                o.put("module", J::s(path(tcx, tcx.parent_module_from_def_id(def).to_def_id())));
                o.put("attrs", attrs_j(tcx, def));
                let mut vs = vec![];
                for (idx, v) in adt.variants().iter_enumerated() {
                    let mut vj = J::obj();
                    vj.put("name", J::s(v.name.to_string()));
                    vj.put("idx", J::Int(idx.as_u32() as i128));
                    if adt.is_enum() {
                        let d = adt.discriminant_for_variant(tcx, idx);
                        // sign-interpret by the discriminant type
                        let s = format!("{}", d);
                        vj.put("discr", J::s(s));
                        if let Some(vd) = v.def_id.as_local() {
                            vj.put("attrs", attrs_j(tcx, vd));
                        }
                    }
                    let mut fs = vec![];
                    for f in v.fields.iter() {
                        let ft = tcx.type_of(f.did).skip_binder();
                        let mut fj = J::obj();
                        fj.put("name", J::s(f.name.to_string()));
                        fj.put("ty", ty_j(tcx, ft));
                        fj.put("vis", J::s(format!("{:?}", f.vis)));
                        if let Some(fd) = f.did.as_local() {
                            fj.put("attrs", attrs_j(tcx, fd));
                        }
                        fs.push(fj);
                    }
                    vj.put("fields", J::Arr(fs));
                    vs.push(vj);
                }
                o.put("variants", J::Arr(vs));
                adts.push(o);
            }
            DefKind::Trait => {
                let mut o = J::obj();
                o.put("path", J::s(path(tcx, did)));
                let mut items = vec![];
                for ai in tcx.associated_items(did).in_definition_order() {
                    items.push(
                        J::obj()
                            .set("name", J::s(ai.opt_name().map(|n| n.to_string()).unwrap_or_else(|| "<rpitit>".to_string())))
                            .set("kind", J::s(assoc_kind(ai)))
                            .set("has_default", J::Bool(ai.defaultness(tcx).has_value()))
                            .set("path", J::s(path(tcx, ai.def_id))),
                    );
                }
                o.put("items", J::Arr(items));
                let preds = tcx.predicates_of(did);
                o.put(
                    "predicates",
                    J::Arr(
                        preds
                            .predicates
                            .iter()
                            .map(|(p, _)| J::s(format!("{}", p)))
                            .collect(),
                    ),
                );
                traits.push(o);
            }
            DefKind::Impl { of_trait } => {
                let mut o = J::obj();
                o.put("index", J::Int(did.index.as_u32() as i128));
                o.put("span", span_j(tcx, tcx.def_span(did)));
                o.put("expn", expn_j(tcx.def_span(did)));
                o.put("of_trait", J::Bool(of_trait));
                let self_ty = tcx.type_of(did).skip_binder();
                o.put("self_ty", ty_j(tcx, self_ty));
                if of_trait {
                    let tr = tcx.impl_trait_ref(did).skip_binder();
                    o.put("trait", J::s(path(tcx, tr.def_id)));
                    o.put("trait_args", args_j(tcx, tr.args));
                    o.put("polarity", J::s(format!("{:?}", tcx.impl_polarity(did))));
                }
                let g = tcx.generics_of(did);
                let mut gp = vec![];
                for p in g.own_params.iter() {
                    gp.push(
                        J::obj()
                            .set("name", J::s(p.name.to_string()))
                            .set("kind", J::s(match p.kind {
                                ty::GenericParamDefKind::Lifetime => "lifetime",
                                ty::GenericParamDefKind::Type { .. } => "type",
                                ty::GenericParamDefKind::Const { .. } => "const",
                            })),
                    );
                }
                o.put("generics", J::Arr(gp));
                let preds = tcx.predicates_of(did);
                o.put(
                    "predicates",
                    J::Arr(
                        preds
                            .predicates
                            .iter()
                            .map(|(p, _)| J::s(with_full(|| format!("{}", p))))
                            .collect(),
                    ),
                );
                let mut items = vec![];
                for ai in tcx.associated_items(did).in_definition_order() {
                    let mut ij = J::obj()
                        .set("name", J::s(ai.opt_name().map(|n| n.to_string()).unwrap_or_else(|| "<rpitit>".to_string())))
                        .set("kind", J::s(assoc_kind(ai)))
                        .set("path", J::s(path(tcx, ai.def_id)))
                        .set("index", J::Int(ai.def_id.index.as_u32() as i128));
                    if matches!(ai.kind, ty::AssocKind::Type { .. }) {
                        let t = tcx.type_of(ai.def_id).skip_binder();
                        ij.put("ty", ty_j(tcx, t));
                        let env = ty::TypingEnv::post_analysis(tcx, did);
                        if let Ok(n) = tcx.try_normalize_erasing_regions(env, ty::Unnormalized::new_wip(t)) {
                            ij.put("ty_norm", ty_j(tcx, n));
                        }
                    }
                    if matches!(ai.kind, ty::AssocKind::Fn { .. }) {
                        let sig = tcx.fn_sig(ai.def_id).skip_binder().skip_binder();
                        ij.put(
                            "inputs",
                            J::Arr(sig.inputs().iter().map(|t| ty_j(tcx, *t)).collect()),
                        );
                        ij.put("output", ty_j(tcx, sig.output()));
                    }
                    if let Some(l) = ai.def_id.as_local() {
                        ij.put("attrs", attrs_j(tcx, l));
                    }
                    items.push(ij);
                }
                o.put("items", J::Arr(items));
                o.put("module", J::s(path(tcx, tcx.parent_module_from_def_id(def).to_def_id())));
                impls.push(o);
            }
            DefKind::Const { .. } | DefKind::AssocConst { .. } | DefKind::Static { .. } => {
                let mut o = J::obj();
                o.put("path", J::s(path(tcx, did)));
                o.put("name", J::s(name_of(tcx, did)));
                o.put("kind", J::s(format!("{:?}", tcx.def_kind(did))));
                o.put("ty", ty_j(tcx, tcx.type_of(did).skip_binder()));
                o.put("vis", J::s(format!("{:?}", tcx.visibility(did))));
                o.put("span", span_j(tcx, tcx.def_span(did)));
                o.put("expn", expn_j(tcx.def_span(did)));
                o.put("module", J::s(path(tcx, tcx.parent_module_from_def_id(def).to_def_id())));
                consts.push(o);
            }
            DefKind::Fn | DefKind::AssocFn => {
                let mut o = J::obj();
                o.put("path", J::s(path(tcx, did)));
                o.put("name", J::s(name_of(tcx, did)));
                o.put("vis", J::s(format!("{:?}", tcx.visibility(did))));
                o.put("attrs", attrs_j(tcx, def));
                fns.push(o);
            }
            _ => {}
        }
    }
    root.put("adts", J::Arr(adts));
    root.put("traits", J::Arr(traits));
    root.put("impls", J::Arr(impls));
    root.put("consts", J::Arr(consts));
    root.put("fns", J::Arr(fns));
}

fn with_full<T>(f: impl FnOnce() -> T) -> T {
    crate::common::full(f)
}

fn assoc_kind(ai: &ty::AssocItem) -> &'static str {
    match ai.kind {
        ty::AssocKind::Const { .. } => "const",
        ty::AssocKind::Fn { .. } => "fn",
        ty::AssocKind::Type { .. } => "type",
    }
}

fn attrs_j(tcx: TyCtxt<'_>, def: rustc_hir::def_id::LocalDefId) -> J {
    let hir_id = tcx.local_def_id_to_hir_id(def);
    let mut v = vec![];
    for a in tcx.hir_attrs(hir_id) {
        match a {
            rustc_hir::Attribute::Unparsed(item) => {
                let p: Vec<String> =
                    item.path.segments.iter().map(|s| s.to_string()).collect();
                v.push(J::obj().set("path", J::s(p.join("::"))).set("args", J::s(format!("{:?}", item.args))));
            }
            rustc_hir::Attribute::Parsed(k) => {
                let dbg = format!("{:?}", k);
                let name = dbg
                    .split(|c: char| !c.is_alphanumeric())
                    .next()
                    .unwrap_or("")
                    .to_string();
                let mut o = J::obj().set("parsed", J::s(name));
                if dbg.len() < 300 {
                    o.put("dbg", J::s(dbg));
                }
                v.push(o);
            }
        }
    }
    J::Arr(v)
}
