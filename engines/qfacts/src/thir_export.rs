//! THIR expression trees of every body owner, as JSON.

use crate::common::*;
use crate::json::J;
use rustc_hir::def::DefKind;
use rustc_hir::def_id::{DefId, LocalDefId};
use rustc_middle::thir::*;
use rustc_middle::ty::{self, TyCtxt};

pub fn collect<'tcx>(tcx: TyCtxt<'tcx>) -> Vec<J> {
    let mut out = vec![];
    for def in tcx.hir_body_owners() {
        let kind = tcx.def_kind(def);
        let mut o = J::obj();
        o.put("def", J::s(path(tcx, def.to_def_id())));
        o.put("index", J::Int(def.local_def_index.as_u32() as i128));
        o.put("kind", J::s(format!("{:?}", kind)));
        o.put("span", span_j(tcx, tcx.def_span(def)));
        o.put("expn", expn_j(tcx.def_span(def)));
        parent_info(tcx, def, &mut o);
        // names of the type / const generic parameters (parent's first), aligned with the `args` of call sites
        if matches!(kind, DefKind::Fn | DefKind::AssocFn) {
            let g = tcx.generics_of(def);
            let mut names = vec![];
            for i in 0..g.count() {
                let p = g.param_at(i, tcx);
                if !matches!(p.kind, ty::GenericParamDefKind::Lifetime) {
                    names.push(J::s(p.name.to_string()));
                }
            }
            o.put("generics", J::Arr(names));
        }
        match tcx.thir_body(def) {
            Ok((steal, root)) => {
                let thir = steal.borrow();
                let ex = Ex { tcx, thir: &thir, owner: def };
                let mut params = vec![];
                for p in thir.params.iter() {
                    let mut pj = J::obj();
                    pj.put("ty", ty_j(tcx, p.ty));
                    if let Some(pat) = &p.pat {
                        pj.put("pat", ex.pat(pat));
                    }
                    params.push(pj);
                }
                o.put("params", J::Arr(params));
                o.put("ret_ty", ty_j(tcx, thir[root].ty));
                o.put("value", ex.expr(root));
            }
            Err(_) => {
                o.put("error", J::s("thir_body failed"));
            }
        }
        out.push(o);
    }
    out
}

fn parent_info(tcx: TyCtxt<'_>, def: LocalDefId, o: &mut J) {
    let did = def.to_def_id();
    if let Some(ai) = tcx.opt_associated_item(did) {
        o.put("name", J::s(ai.opt_name().map(|n| n.to_string()).unwrap_or_else(|| "<rpitit>".to_string())));
        let container = tcx.parent(did);
        match tcx.def_kind(container) {
            DefKind::Trait => {
                o.put("in_trait", J::s(path(tcx, container)));
            }
            DefKind::Impl { of_trait } => {
                o.put("in_impl", J::Int(container.index.as_u32() as i128));
                if of_trait {
                    let tr = tcx.impl_trait_ref(container).skip_binder();
                    o.put("impl_trait", J::s(path(tcx, tr.def_id)));
                    o.put("impl_trait_args", args_j(tcx, tr.args));
                }
                let t = tcx.type_of(container).skip_binder();
                o.put("impl_self", ty_j(tcx, t));
            }
            _ => {}
        }
    } else if matches!(tcx.def_kind(did), DefKind::Closure) {
        let p = tcx.typeck_root_def_id(did);
        o.put("closure_of", J::s(path(tcx, p)));
    } else if let Some(n) = tcx.opt_item_name(did) {
        o.put("name", J::s(n.to_string()));
    }
}

struct Ex<'a, 'tcx> {
    tcx: TyCtxt<'tcx>,
    thir: &'a Thir<'tcx>,
    owner: LocalDefId,
}

impl<'a, 'tcx> Ex<'a, 'tcx> {
    fn node(&self, k: &str, e: &Expr<'tcx>) -> J {
        J::obj()
            .set("k", J::s(k))
            .set("sp", span_j(self.tcx, e.span))
            .set("x", J::Bool(e.span.from_expansion()))
    }

    fn var_name(&self, id: LocalVarId) -> String {
        self.tcx.hir_name(id.0).to_string()
    }

    fn fn_of(&self, fun: ExprId) -> Option<J> {
        let f = &self.thir[fun];
        // peel scopes
        let mut cur = f;
        loop {
            match &cur.kind {
                ExprKind::Scope { value, .. } => cur = &self.thir[*value],
                _ => break,
            }
        }
        if let ty::FnDef(def, args) = cur.ty.kind() {
            Some(fn_ref_j(self.tcx, self.owner.to_def_id(), *def, args))
        } else {
            None
        }
    }

    fn expr(&self, id: ExprId) -> J {
        let e = &self.thir[id];
        let tcx = self.tcx;
        match &e.kind {
            ExprKind::Scope { value, .. } => self.expr(*value),
            ExprKind::Use { source } => self.expr(*source),
            ExprKind::NeverToAny { source } => self.expr(*source),
            ExprKind::ValueTypeAscription { source, .. } => self.expr(*source),
            ExprKind::PlaceTypeAscription { source, .. } => self.expr(*source),
            ExprKind::If { cond, then, else_opt, .. } => {
                let mut o = self.node("if", e);
                o.put("cond", self.expr(*cond));
                o.put("then", self.expr(*then));
                o.put(
                    "else",
                    else_opt.map(|x| self.expr(x)).unwrap_or(J::Null),
                );
                o
            }
            ExprKind::Call { fun, args, .. } => {
                let mut o = self.node("call", e);
                match self.fn_of(*fun) {
                    Some(f) => o.put("fn", f),
                    None => o.put("fn_expr", self.expr(*fun)),
                }
                o.put(
                    "args",
                    J::Arr(args.iter().map(|a| self.expr(*a)).collect()),
                );
                o.put("ty", ty_j(tcx, e.ty));
                o
            }
            ExprKind::Deref { arg } => {
                J::obj().set("k", J::s("deref")).set("e", self.expr(*arg))
            }
            ExprKind::Binary { op, lhs, rhs } => {
                let mut o = self.node("bin", e);
                o.put("op", J::s(format!("{:?}", op)));
                o.put("l", self.expr(*lhs));
                o.put("r", self.expr(*rhs));
                o.put("ty", ty_j(tcx, self.thir[*lhs].ty));
                o
            }
            ExprKind::LogicalOp { op, lhs, rhs } => {
                let mut o = self.node("logic", e);
                o.put("op", J::s(format!("{:?}", op)));
                o.put("l", self.expr(*lhs));
                o.put("r", self.expr(*rhs));
                o
            }
            ExprKind::Unary { op, arg } => {
                let mut o = self.node("un", e);
                o.put("op", J::s(format!("{:?}", op)));
                o.put("e", self.expr(*arg));
                o.put("ty", ty_j(tcx, self.thir[*arg].ty));
                o
            }
            ExprKind::Cast { source } => {
                let mut o = self.node("cast", e);
                o.put("e", self.expr(*source));
                o.put("from", ty_j(tcx, self.thir[*source].ty));
                o.put("to", ty_j(tcx, e.ty));
                o
            }
            ExprKind::PointerCoercion { cast, source, .. } => {
                let mut o = self.node("coerce", e);
                o.put("cast", J::s(format!("{:?}", cast)));
                o.put("e", self.expr(*source));
                o.put("to", ty_j(tcx, e.ty));
                o
            }
            ExprKind::Let { expr, pat } => {
                let mut o = self.node("let", e);
                o.put("e", self.expr(*expr));
                o.put("pat", self.pat(pat));
                o
            }
            ExprKind::Match { scrutinee, arms, .. } => {
                let mut o = self.node("match", e);
                o.put("scrut", self.expr(*scrutinee));
                o.put("scrut_ty", ty_j(tcx, self.thir[*scrutinee].ty));
                let mut av = vec![];
                for a in arms.iter() {
                    let arm = &self.thir[*a];
                    let mut aj = J::obj();
                    aj.put("pat", self.pat(&arm.pattern));
                    aj.put(
                        "guard",
                        arm.guard.map(|g| self.expr(g)).unwrap_or(J::Null),
                    );
                    aj.put("body", self.expr(arm.body));
                    av.push(aj);
                }
                o.put("arms", J::Arr(av));
                o
            }
            ExprKind::Block { block } => self.block(*block),
            ExprKind::Assign { lhs, rhs } => {
                let mut o = self.node("assign", e);
                o.put("l", self.expr(*lhs));
                o.put("r", self.expr(*rhs));
                o
            }
            ExprKind::AssignOp { op, lhs, rhs } => {
                let mut o = self.node("assign_op", e);
                o.put("op", J::s(format!("{:?}", op)));
                o.put("l", self.expr(*lhs));
                o.put("r", self.expr(*rhs));
                o
            }
            ExprKind::Field { lhs, variant_index, name } => {
                let mut o = J::obj().set("k", J::s("field"));
                o.put("e", self.expr(*lhs));
                o.put("idx", J::Int(name.as_u32() as i128));
                let lt = self.thir[*lhs].ty;
                if let ty::Adt(adt, _) = lt.kind() {
                    let v = adt.variant(*variant_index);
                    o.put("name", J::s(v.fields[*name].name.to_string()));
                    o.put("adt", J::s(path(tcx, adt.did())));
                }
                o
            }
            ExprKind::Index { lhs, index } => {
                let mut o = self.node("index", e);
                o.put("e", self.expr(*lhs));
                o.put("i", self.expr(*index));
                o
            }
            ExprKind::VarRef { id } => J::obj()
                .set("k", J::s("var"))
                .set("id", J::Int(id.0.local_id.as_u32() as i128))
                .set("name", J::s(self.var_name(*id))),
            ExprKind::UpvarRef { var_hir_id, .. } => J::obj()
                .set("k", J::s("upvar"))
                .set("id", J::Int(var_hir_id.0.local_id.as_u32() as i128))
                .set("name", J::s(self.var_name(*var_hir_id))),
            ExprKind::Borrow { borrow_kind, arg } => J::obj()
                .set("k", J::s("ref"))
                .set(
                    "mut",
                    J::Bool(matches!(
                        borrow_kind,
                        rustc_middle::mir::BorrowKind::Mut { .. }
                    )),
                )
                .set("e", self.expr(*arg)),
            ExprKind::Return { value } => {
                let mut o = self.node("return", e);
                o.put("e", value.map(|v| self.expr(v)).unwrap_or(J::Null));
                o
            }
            ExprKind::Array { fields } => {
                let mut o = self.node("array", e);
                o.put(
                    "elems",
                    J::Arr(fields.iter().map(|f| self.expr(*f)).collect()),
                );
                o
            }
            ExprKind::Tuple { fields } => {
                let mut o = self.node("tuple", e);
                o.put(
                    "elems",
                    J::Arr(fields.iter().map(|f| self.expr(*f)).collect()),
                );
                o
            }
            ExprKind::Adt(adt) => {
                let mut o = self.node("adt", e);
                o.put("path", J::s(path(tcx, adt.adt_def.did())));
                let v = adt.adt_def.variant(adt.variant_index);
                o.put("variant", J::s(v.name.to_string()));
                o.put("variant_idx", J::Int(adt.variant_index.as_u32() as i128));
                o.put("is_enum", J::Bool(adt.adt_def.is_enum()));
                let mut fs = vec![];
                for f in adt.fields.iter() {
                    fs.push(
                        J::obj()
                            .set("name", J::s(v.fields[f.name].name.to_string()))
                            .set("idx", J::Int(f.name.as_u32() as i128))
                            .set("e", self.expr(f.expr)),
                    );
                }
                o.put("fields", J::Arr(fs));
                o.put("has_base", J::Bool(!matches!(adt.base, AdtExprBase::None)));
                if let AdtExprBase::Base(fru) = &adt.base {
                    // struct update syntax `S { f: x, ..base }`: the base expression and all field names in order
                    o.put("base", self.expr(fru.base));
                    o.put(
                        "all_fields",
                        J::Arr(v.fields.iter().map(|f| J::s(f.name.to_string())).collect()),
                    );
                }
                o.put("ty", ty_j(tcx, e.ty));
                o
            }
            ExprKind::Closure(c) => {
                let mut o = self.node("closure", e);
                o.put("def", J::s(path(tcx, c.closure_id.to_def_id())));
                o.put(
                    "upvars",
                    J::Arr(c.upvars.iter().map(|u| self.expr(*u)).collect()),
                );
                // names of captured variables, in capture order
                let mut names = vec![];
                for cap in tcx
                    .closure_captures(c.closure_id)
                    .iter()
                {
                    names.push(J::obj()
                        .set("name", J::s(cap.to_string(tcx)))
                        .set("var", J::Int(cap.get_root_variable().local_id.as_u32() as i128))
                        .set("by_ref", J::Bool(cap.is_by_ref())));
                }
                o.put("captures", J::Arr(names));
                o
            }
            ExprKind::Literal { lit, neg } => {
                let mut o = self.node("lit", e);
                o.put("neg", J::Bool(*neg));
                o.put("lit", lit_j(&lit.node));
                if e.span.from_expansion() {
                    // e.g. the `true` / `false` produced by `cfg!(..)`
                    o.put("expn", expn_j(e.span));
                    o.put("expn_chain", expn_chain_j(e.span));
                }
                o.put("ty", ty_j(tcx, e.ty));
                o
            }
            ExprKind::NonHirLiteral { lit, .. } => {
                let mut o = self.node("scalar", e);
                o.put("bits", J::s(format!("{}", lit.to_bits_unchecked())));
                o.put("ty", ty_j(tcx, e.ty));
                o
            }
            ExprKind::ZstLiteral { .. } => {
                let mut o = self.node("zst", e);
                if let ty::FnDef(def, args) = e.ty.kind() {
                    o.put("fn", fn_ref_j(tcx, self.owner.to_def_id(), *def, args));
                }
                o.put("ty", ty_j(tcx, e.ty));
                o
            }
            ExprKind::NamedConst { def_id, args, .. } => {
                let mut o = self.node("const", e);
                o.put("path", J::s(path(tcx, *def_id)));
                o.put("name", J::s(name_of(tcx, *def_id)));
                o.put("args", args_j(tcx, args));
                o.put("ty", ty_j(tcx, e.ty));
                self.const_ref(*def_id, args, &mut o);
                o
            }
            ExprKind::Loop { body } => {
                let mut o = self.node("loop", e);
                o.put("body", self.expr(*body));
                o
            }
            ExprKind::Break { value, .. } => {
                let mut o = self.node("break", e);
                o.put("e", value.map(|v| self.expr(v)).unwrap_or(J::Null));
                o
            }
            ExprKind::Continue { .. } => self.node("continue", e),
            ExprKind::Repeat { value, count } => {
                let mut o = self.node("repeat", e);
                o.put("e", self.expr(*value));
                o.put("count", J::s(format!("{}", count)));
                o
            }
            other => {
                let dbg = format!("{:?}", other);
                let name = dbg
                    .split(|c: char| !c.is_alphanumeric())
                    .next()
                    .unwrap_or("")
                    .to_string();
                let mut o = self.node("unsupported", e);
                o.put("kind", J::s(name));
                o
            }
        }
    }

    fn const_ref(&self, def: DefId, args: ty::GenericArgsRef<'tcx>, o: &mut J) {
        let tcx = self.tcx;
        if tcx.opt_associated_item(def).is_some() {
            let container = tcx.parent(def);
            match tcx.def_kind(container) {
                DefKind::Trait => {
                    o.put("trait", J::s(path(tcx, container)));
                    let env = ty::TypingEnv::post_analysis(tcx, self.owner.to_def_id());
                    if let Ok(Some(inst)) =
                        ty::Instance::try_resolve(tcx, env, def, args)
                    {
                        o.put("resolved", J::s(path(tcx, inst.def_id())));
                    }
                }
                DefKind::Impl { .. } => {
                    let t = tcx.type_of(container).skip_binder();
                    o.put("impl_self", ty_j(tcx, t));
                }
                _ => {}
            }
        }
    }

    fn block(&self, id: BlockId) -> J {
        let b = &self.thir[id];
        let mut o = J::obj().set("k", J::s("block"));
        let mut stmts = vec![];
        for s in b.stmts.iter() {
            let st = &self.thir[*s];
            match &st.kind {
                StmtKind::Expr { expr, .. } => stmts.push(
                    J::obj().set("k", J::s("expr")).set("e", self.expr(*expr)),
                ),
                StmtKind::Let { pattern, initializer, else_block, .. } => {
                    let mut l = J::obj().set("k", J::s("let"));
                    l.put("pat", self.pat(pattern));
                    l.put(
                        "init",
                        initializer.map(|i| self.expr(i)).unwrap_or(J::Null),
                    );
                    l.put(
                        "else",
                        else_block.map(|b| self.block(b)).unwrap_or(J::Null),
                    );
                    stmts.push(l);
                }
            }
        }
        o.put("stmts", J::Arr(stmts));
        o.put("expr", b.expr.map(|e| self.expr(e)).unwrap_or(J::Null));
        o
    }

    fn pat(&self, p: &Pat<'tcx>) -> J {
        let tcx = self.tcx;
        let mut o = J::obj();
        match &p.kind {
            PatKind::Wild => o.put("k", J::s("wild")),
            PatKind::Binding { name, var, subpattern, mode, .. } => {
                o.put("k", J::s("bind"));
                o.put("name", J::s(name.to_string()));
                o.put("id", J::Int(var.0.local_id.as_u32() as i128));
                o.put("by_ref", J::Bool(!matches!(mode.0, rustc_hir::ByRef::No)));
                if let Some(sp) = subpattern {
                    o.put("sub", self.pat(sp));
                }
            }
            PatKind::Variant { adt_def, variant_index, subpatterns, .. } => {
                o.put("k", J::s("variant"));
                o.put("path", J::s(path(tcx, adt_def.did())));
                let v = adt_def.variant(*variant_index);
                o.put("variant", J::s(v.name.to_string()));
                o.put("variant_idx", J::Int(variant_index.as_u32() as i128));
                o.put(
                    "subs",
                    J::Arr(
                        subpatterns
                            .iter()
                            .map(|fp| {
                                J::obj()
                                    .set("idx", J::Int(fp.field.as_u32() as i128))
                                    .set("pat", self.pat(&fp.pattern))
                            })
                            .collect(),
                    ),
                );
            }
            PatKind::Leaf { subpatterns } => {
                o.put("k", J::s("leaf"));
                o.put(
                    "subs",
                    J::Arr(
                        subpatterns
                            .iter()
                            .map(|fp| {
                                J::obj()
                                    .set("idx", J::Int(fp.field.as_u32() as i128))
                                    .set("pat", self.pat(&fp.pattern))
                            })
                            .collect(),
                    ),
                );
            }
            PatKind::Deref { subpattern, .. } => {
                o.put("k", J::s("deref"));
                o.put("sub", self.pat(subpattern));
            }
            PatKind::Constant { value } => {
                o.put("k", J::s("const"));
                o.put("ty", ty_j(tcx, value.ty));
                o.put("dbg", J::s(format!("{}", value)));
                if let Some(si) = value.try_to_leaf() {
                    o.put("size", J::Int(si.size().bytes() as i128));
                    o.put("bits", J::s(format!("{}", si.to_bits_unchecked())));
                }
                if value.ty.is_str() {
                    let bytes: Option<Vec<u8>> = value
                        .to_branch()
                        .into_iter()
                        .map(|ct| {
                            (*ct)
                                .try_to_value()
                                .and_then(|v| v.try_to_leaf().map(|l| l.to_u8()))
                        })
                        .collect();
                    if let Some(bytes) = bytes {
                        if let Ok(s) = std::str::from_utf8(&bytes) {
                            o.put("str", J::s(s));
                        }
                    }
                } else if let Some(bytes) = value.try_to_raw_bytes(tcx) {
                    o.put(
                        "bytes",
                        J::Arr(bytes.iter().map(|b| J::Int(*b as i128)).collect()),
                    );
                    if let Ok(s) = std::str::from_utf8(bytes) {
                        o.put("str", J::s(s));
                    }
                }
            }
            PatKind::Or { pats } => {
                o.put("k", J::s("or"));
                o.put("pats", J::Arr(pats.iter().map(|p| self.pat(p)).collect()));
            }
            other => {
                o.put("k", J::s("unsupported"));
                let dbg = format!("{:?}", other);
                o.put(
                    "kind",
                    J::s(dbg.split(|c: char| !c.is_alphanumeric()).next().unwrap_or("")),
                );
            }
        }
        o.put("ty", ty_j(tcx, p.ty));
        o
    }
}

fn lit_j(l: &rustc_ast::LitKind) -> J {
    use rustc_ast::LitKind::*;
    let mut o = J::obj();
    match l {
        Str(s, _) => {
            o.put("t", J::s("str"));
            o.put("v", J::s(s.to_string()));
        }
        Int(v, _) => {
            o.put("t", J::s("int"));
            o.put("v", J::s(format!("{}", v.get())));
        }
        Float(s, _) => {
            o.put("t", J::s("float"));
            o.put("v", J::s(s.to_string()));
        }
        Bool(b) => {
            o.put("t", J::s("bool"));
            o.put("v", J::Bool(*b));
        }
        Char(c) => {
            o.put("t", J::s("char"));
            o.put("v", J::s(c.to_string()));
        }
        ByteStr(bytes, _) => {
            o.put("t", J::s("bytestr"));
            o.put(
                "v",
                J::Arr(bytes.as_byte_str().iter().map(|b| J::Int(*b as i128)).collect()),
            );
        }
        other => {
            o.put("t", J::s("other"));
            o.put("v", J::s(format!("{:?}", other)));
        }
    }
    o
}
