//! declscan — scanner of the UN-expanded sources (Engine B).
//!
//! usage: declscan <file.rs>...   (JSON on stdout)
//!
//! For every file: the `#[quantity]` definitions with their attribute tables
//! exactly as written (literal token text preserved), every cfg/cfg_attr
//! attribute, every `mod` item, and the leading segments of every path.

mod json;

use json::J;
use proc_macro2::{TokenStream, TokenTree};
use syn::spanned::Spanned;
use syn::visit::{self, Visit};

struct V {
    file: String,
    stack: Vec<String>,
    cfg_stack: Vec<String>,
    defs: Vec<J>,
    cfgs: Vec<J>,
    mods: Vec<J>,
    paths: Vec<J>,
    macros: Vec<J>,
}

fn attr_name(a: &syn::Attribute) -> String {
    a.path()
        .segments
        .iter()
        .map(|s| s.ident.to_string())
        .collect::<Vec<_>>()
        .join("::")
}

fn split_args(ts: TokenStream) -> Vec<Vec<TokenTree>> {
    let mut out = vec![];
    let mut cur = vec![];
    for tt in ts {
        match &tt {
            TokenTree::Punct(p) if p.as_char() == ',' => {
                out.push(std::mem::take(&mut cur));
            }
            _ => cur.push(tt),
        }
    }
    if !cur.is_empty() {
        out.push(cur);
    }
    out
}

fn arg_j(tts: &[TokenTree]) -> J {
    let text: String = tts.iter().map(|t| t.to_string()).collect::<Vec<_>>().join("");
    let mut o = J::obj().set("text", J::s(text.clone()));
    // classify
    let ts: TokenStream = tts.iter().cloned().collect();
    if let Ok(l) = syn::parse2::<syn::Lit>(ts.clone()) {
        match l {
            syn::Lit::Str(s) => {
                o.put("kind", J::s("str"));
                o.put("value", J::s(s.value()));
            }
            syn::Lit::Int(i) => {
                o.put("kind", J::s("int"));
                o.put("digits", J::s(i.base10_digits()));
                o.put("suffix", J::s(i.suffix()));
            }
            syn::Lit::Float(f) => {
                o.put("kind", J::s("float"));
                o.put("digits", J::s(f.base10_digits()));
                o.put("suffix", J::s(f.suffix()));
            }
            _ => o.put("kind", J::s("otherlit")),
        }
    } else if let Ok(id) = syn::parse2::<syn::Ident>(ts.clone()) {
        o.put("kind", J::s("ident"));
        o.put("value", J::s(id.to_string()));
    } else {
        // e.g. a negative literal: `-` lit
        o.put("kind", J::s("other"));
    }
    o
}

impl V {
    fn ctx(&self) -> J {
        J::Arr(self.stack.iter().map(|s| J::s(s.clone())).collect())
    }
    fn record_attrs(&mut self, attrs: &[syn::Attribute], what: &str) {
        for a in attrs {
            let n = attr_name(a);
            if n == "cfg" || n == "cfg_attr" {
                let toks = match &a.meta {
                    syn::Meta::List(l) => l.tokens.to_string(),
                    _ => String::new(),
                };
                self.cfgs.push(
                    J::obj()
                        .set("file", J::s(self.file.clone()))
                        .set("line", J::Int(a.span().start().line as i128))
                        .set("attr", J::s(n))
                        .set("tokens", J::s(toks))
                        .set("on", J::s(what))
                        .set("ctx", self.ctx()),
                );
            }
        }
    }
    fn quantity_def(&mut self, s: &syn::ItemStruct) {
        let qattr = s.attrs.iter().find(|a| {
            a.path().segments.last().map(|x| x.ident == "quantity").unwrap_or(false)
        });
        let Some(qattr) = qattr else { return };
        let mut o = J::obj();
        o.put("file", J::s(self.file.clone()));
        o.put("ident", J::s(s.ident.to_string()));
        o.put("ctx", self.ctx());
        o.put("cfg_ctx", J::Arr(self.cfg_stack.iter().map(|s| J::s(s.clone())).collect()));
        let first_line = s.attrs.iter().map(|a| a.span().start().line).min().unwrap_or(0);
        o.put("line_start", J::Int(first_line as i128));
        o.put("line_end", J::Int(s.span().end().line as i128));
        o.put("struct_line", J::Int(s.ident.span().start().line as i128));
        o.put("n_fields", J::Int(s.fields.len() as i128));
        o.put("n_generics", J::Int(s.generics.params.len() as i128));
        o.put("vis", J::s(match s.vis { syn::Visibility::Public(_) => "pub", syn::Visibility::Inherited => "", _ => "restricted" }));
        // derivation
        match &qattr.meta {
            syn::Meta::Path(_) => o.put("derived", J::Null),
            syn::Meta::List(l) => {
                let toks = l.tokens.clone();
                let mut d = J::obj().set("tokens", J::s(toks.to_string()));
                if let Ok(syn::Expr::Binary(b)) = syn::parse2::<syn::Expr>(toks) {
                    let id = |e: &syn::Expr| match e {
                        syn::Expr::Path(p) => p.path.get_ident().map(|i| i.to_string()),
                        _ => None,
                    };
                    let op = match b.op {
                        syn::BinOp::Mul(_) => "*",
                        syn::BinOp::Div(_) => "/",
                        _ => "?",
                    };
                    d.put("op", J::s(op));
                    d.put("lhs", id(&b.left).map(J::s).unwrap_or(J::Null));
                    d.put("rhs", id(&b.right).map(J::s).unwrap_or(J::Null));
                }
                o.put("derived", d);
            }
            _ => o.put("derived", J::s("?")),
        }
        let mut units = vec![];
        let mut docs = vec![];
        let mut others = vec![];
        for a in &s.attrs {
            let n = attr_name(a);
            if n == "unit" || n == "ref_unit" {
                let mut u = J::obj();
                u.put("attr", J::s(n));
                u.put("line", J::Int(a.span().start().line as i128));
                let toks = match &a.meta {
                    syn::Meta::List(l) => l.tokens.clone(),
                    _ => TokenStream::new(),
                };
                u.put(
                    "args",
                    J::Arr(split_args(toks).iter().map(|a| arg_j(a)).collect()),
                );
                units.push(u);
            } else if n == "doc" {
                if let syn::Meta::NameValue(nv) = &a.meta {
                    if let syn::Expr::Lit(syn::ExprLit { lit: syn::Lit::Str(s), .. }) = &nv.value {
                        docs.push(J::s(s.value()));
                    }
                }
            } else if n != "quantity" {
                others.push(J::s(n));
            }
        }
        o.put("units", J::Arr(units));
        o.put("docs", J::Arr(docs));
        o.put("other_attrs", J::Arr(others));
        self.defs.push(o);
    }
}

fn cfg_of(attrs: &[syn::Attribute]) -> Option<String> {
    for a in attrs {
        if attr_name(a) == "cfg" {
            if let syn::Meta::List(l) = &a.meta {
                return Some(l.tokens.to_string());
            }
        }
    }
    None
}

impl<'ast> Visit<'ast> for V {
    fn visit_item_struct(&mut self, s: &'ast syn::ItemStruct) {
        self.record_attrs(&s.attrs, &format!("struct {}", s.ident));
        self.quantity_def(s);
        visit::visit_item_struct(self, s);
    }
    fn visit_item_mod(&mut self, m: &'ast syn::ItemMod) {
        self.record_attrs(&m.attrs, &format!("mod {}", m.ident));
        self.mods.push(
            J::obj()
                .set("file", J::s(self.file.clone()))
                .set("ident", J::s(m.ident.to_string()))
                .set("inline", J::Bool(m.content.is_some()))
                .set("line", J::Int(m.ident.span().start().line as i128))
                .set("vis", J::s(match m.vis { syn::Visibility::Public(_) => "pub", syn::Visibility::Inherited => "", _ => "restricted" }))
                .set("cfg", cfg_of(&m.attrs).map(J::s).unwrap_or(J::Null))
                .set("ctx", self.ctx()),
        );
        self.stack.push(format!("mod {}", m.ident));
        let c = cfg_of(&m.attrs);
        if let Some(c) = &c {
            self.cfg_stack.push(c.clone());
        }
        visit::visit_item_mod(self, m);
        if c.is_some() {
            self.cfg_stack.pop();
        }
        self.stack.pop();
    }
    fn visit_item_fn(&mut self, f: &'ast syn::ItemFn) {
        self.record_attrs(&f.attrs, &format!("fn {}", f.sig.ident));
        self.stack.push(format!("fn {}", f.sig.ident));
        visit::visit_item_fn(self, f);
        self.stack.pop();
    }
    fn visit_impl_item_fn(&mut self, f: &'ast syn::ImplItemFn) {
        self.record_attrs(&f.attrs, &format!("fn {}", f.sig.ident));
        self.stack.push(format!("fn {}", f.sig.ident));
        visit::visit_impl_item_fn(self, f);
        self.stack.pop();
    }
    fn visit_trait_item_fn(&mut self, f: &'ast syn::TraitItemFn) {
        self.record_attrs(&f.attrs, &format!("fn {}", f.sig.ident));
        self.stack.push(format!("fn {}", f.sig.ident));
        visit::visit_trait_item_fn(self, f);
        self.stack.pop();
    }
    fn visit_item_trait(&mut self, t: &'ast syn::ItemTrait) {
        self.record_attrs(&t.attrs, &format!("trait {}", t.ident));
        self.stack.push(format!("trait {}", t.ident));
        visit::visit_item_trait(self, t);
        self.stack.pop();
    }
    fn visit_item_use(&mut self, u: &'ast syn::ItemUse) {
        self.record_attrs(&u.attrs, "use");
        let mut flat = vec![];
        fn walk(t: &syn::UseTree, prefix: &mut Vec<String>, out: &mut Vec<String>) {
            match t {
                syn::UseTree::Path(p) => {
                    prefix.push(p.ident.to_string());
                    walk(&p.tree, prefix, out);
                    prefix.pop();
                }
                syn::UseTree::Name(n) => {
                    let mut v = prefix.clone();
                    v.push(n.ident.to_string());
                    out.push(v.join("::"));
                }
                syn::UseTree::Rename(r) => {
                    let mut v = prefix.clone();
                    v.push(r.ident.to_string());
                    out.push(v.join("::"));
                }
                syn::UseTree::Glob(_) => {
                    let mut v = prefix.clone();
                    v.push("*".into());
                    out.push(v.join("::"));
                }
                syn::UseTree::Group(g) => {
                    for t in &g.items {
                        walk(t, prefix, out);
                    }
                }
            }
        }
        let mut prefix = vec![];
        if u.leading_colon.is_some() {
            prefix.push("".to_string());
        }
        walk(&u.tree, &mut prefix, &mut flat);
        for p in flat {
            self.paths.push(
                J::obj()
                    .set("file", J::s(self.file.clone()))
                    .set("line", J::Int(u.span().start().line as i128))
                    .set("use", J::Bool(true))
                    .set("cfg", cfg_of(&u.attrs).map(J::s).unwrap_or(J::Null))
                    .set("cfg_ctx", J::Arr(self.cfg_stack.iter().map(|s| J::s(s.clone())).collect()))
                    .set("path", J::s(p)),
            );
        }
    }
    fn visit_path(&mut self, p: &'ast syn::Path) {
        if p.segments.len() >= 2 {
            let segs: Vec<String> = p.segments.iter().map(|s| s.ident.to_string()).collect();
            self.paths.push(
                J::obj()
                    .set("file", J::s(self.file.clone()))
                    .set("line", J::Int(p.span().start().line as i128))
                    .set("use", J::Bool(false))
                    .set("cfg_ctx", J::Arr(self.cfg_stack.iter().map(|s| J::s(s.clone())).collect()))
                    .set("path", J::s(segs.join("::"))),
            );
        }
        visit::visit_path(self, p);
    }
    fn visit_local(&mut self, l: &'ast syn::Local) {
        self.record_attrs(&l.attrs, "let");
        visit::visit_local(self, l);
    }
    fn visit_item_enum(&mut self, e: &'ast syn::ItemEnum) {
        self.record_attrs(&e.attrs, &format!("enum {}", e.ident));
        visit::visit_item_enum(self, e);
    }
    fn visit_item_const(&mut self, c: &'ast syn::ItemConst) {
        self.record_attrs(&c.attrs, &format!("const {}", c.ident));
        visit::visit_item_const(self, c);
    }
    fn visit_item_impl(&mut self, i: &'ast syn::ItemImpl) {
        self.record_attrs(&i.attrs, "impl");
        visit::visit_item_impl(self, i);
    }
    fn visit_item_macro(&mut self, m: &'ast syn::ItemMacro) {
        self.record_attrs(&m.attrs, "macro");
        self.macros.push(
            J::obj()
                .set("file", J::s(self.file.clone()))
                .set("line", J::Int(m.span().start().line as i128))
                .set("ident", m.ident.as_ref().map(|i| J::s(i.to_string())).unwrap_or(J::Null))
                .set("tokens", J::s(m.mac.tokens.to_string())),
        );
        visit::visit_item_macro(self, m);
    }
    fn visit_field(&mut self, f: &'ast syn::Field) {
        self.record_attrs(&f.attrs, "field");
        visit::visit_field(self, f);
    }
    fn visit_variant(&mut self, v: &'ast syn::Variant) {
        self.record_attrs(&v.attrs, "variant");
        visit::visit_variant(self, v);
    }
    fn visit_arm(&mut self, a: &'ast syn::Arm) {
        self.record_attrs(&a.attrs, "arm");
        visit::visit_arm(self, a);
    }
    fn visit_field_value(&mut self, f: &'ast syn::FieldValue) {
        self.record_attrs(&f.attrs, "field value");
        visit::visit_field_value(self, f);
    }
    fn visit_item_static(&mut self, i: &'ast syn::ItemStatic) {
        self.record_attrs(&i.attrs, &format!("static {}", i.ident));
        visit::visit_item_static(self, i);
    }
    fn visit_item_type(&mut self, i: &'ast syn::ItemType) {
        self.record_attrs(&i.attrs, &format!("type {}", i.ident));
        visit::visit_item_type(self, i);
    }
    fn visit_impl_item_const(&mut self, i: &'ast syn::ImplItemConst) {
        self.record_attrs(&i.attrs, &format!("assoc const {}", i.ident));
        visit::visit_impl_item_const(self, i);
    }
    fn visit_impl_item_type(&mut self, i: &'ast syn::ImplItemType) {
        self.record_attrs(&i.attrs, &format!("assoc type {}", i.ident));
        visit::visit_impl_item_type(self, i);
    }
    fn visit_trait_item_const(&mut self, i: &'ast syn::TraitItemConst) {
        self.record_attrs(&i.attrs, &format!("assoc const {}", i.ident));
        visit::visit_trait_item_const(self, i);
    }
    fn visit_generic_param(&mut self, g: &'ast syn::GenericParam) {
        let attrs: &[syn::Attribute] = match g {
            syn::GenericParam::Type(t) => &t.attrs,
            syn::GenericParam::Lifetime(l) => &l.attrs,
            syn::GenericParam::Const(c) => &c.attrs,
        };
        self.record_attrs(attrs, "generic parameter");
        visit::visit_generic_param(self, g);
    }
    fn visit_expr(&mut self, e: &'ast syn::Expr) {
        // attributes on expressions / statements
        let attrs: &[syn::Attribute] = match e {
            syn::Expr::Let(x) => &x.attrs,
            syn::Expr::If(x) => &x.attrs,
            syn::Expr::Block(x) => &x.attrs,
            syn::Expr::Call(x) => &x.attrs,
            syn::Expr::MethodCall(x) => &x.attrs,
            syn::Expr::Macro(x) => &x.attrs,
            syn::Expr::Match(x) => &x.attrs,
            syn::Expr::Return(x) => &x.attrs,
            syn::Expr::Binary(x) => &x.attrs,
            syn::Expr::Unary(x) => &x.attrs,
            syn::Expr::Assign(x) => &x.attrs,
            syn::Expr::Path(x) => &x.attrs,
            syn::Expr::Lit(x) => &x.attrs,
            syn::Expr::Field(x) => &x.attrs,
            syn::Expr::Struct(x) => &x.attrs,
            syn::Expr::Tuple(x) => &x.attrs,
            syn::Expr::Array(x) => &x.attrs,
            syn::Expr::Closure(x) => &x.attrs,
            syn::Expr::ForLoop(x) => &x.attrs,
            syn::Expr::While(x) => &x.attrs,
            syn::Expr::Loop(x) => &x.attrs,
            syn::Expr::Paren(x) => &x.attrs,
            syn::Expr::Reference(x) => &x.attrs,
            syn::Expr::Index(x) => &x.attrs,
            syn::Expr::Cast(x) => &x.attrs,
            syn::Expr::Try(x) => &x.attrs,
            syn::Expr::Unsafe(x) => &x.attrs,
            syn::Expr::Break(x) => &x.attrs,
            syn::Expr::Continue(x) => &x.attrs,
            syn::Expr::Range(x) => &x.attrs,
            syn::Expr::Repeat(x) => &x.attrs,
            _ => &[],
        };
        self.record_attrs(attrs, "expr");
        visit::visit_expr(self, e);
    }
}

fn main() {
    let mut files = vec![];
    let mut errors = vec![];
    for f in std::env::args().skip(1) {
        let src = match std::fs::read_to_string(&f) {
            Ok(s) => s,
            Err(e) => {
                errors.push(J::obj().set("file", J::s(f.clone())).set("error", J::s(e.to_string())));
                continue;
            }
        };
        match syn::parse_file(&src) {
            Ok(ast) => {
                let mut v = V {
                    file: f.clone(),
                    stack: vec![],
                    cfg_stack: vec![],
                    defs: vec![],
                    cfgs: vec![],
                    mods: vec![],
                    paths: vec![],
                    macros: vec![],
                };
                // crate-level attributes
                v.record_attrs(&ast.attrs, "crate");
                let crate_attrs: Vec<J> = ast
                    .attrs
                    .iter()
                    .map(|a| {
                        J::obj().set("name", J::s(attr_name(a))).set(
                            "tokens",
                            J::s(match &a.meta {
                                syn::Meta::List(l) => l.tokens.to_string(),
                                _ => String::new(),
                            }),
                        )
                    })
                    .collect();
                v.visit_file(&ast);
                files.push(
                    J::obj()
                        .set("file", J::s(f.clone()))
                        .set("crate_attrs", J::Arr(crate_attrs))
                        .set("defs", J::Arr(v.defs))
                        .set("cfgs", J::Arr(v.cfgs))
                        .set("mods", J::Arr(v.mods))
                        .set("paths", J::Arr(v.paths))
                        .set("macros", J::Arr(v.macros)),
                );
            }
            Err(e) => {
                errors.push(J::obj().set("file", J::s(f.clone())).set("error", J::s(e.to_string())));
            }
        }
    }
    let root = J::obj().set("files", J::Arr(files)).set("errors", J::Arr(errors));
    let mut s = String::new();
    root.write(&mut s);
    println!("{}", s);
}
