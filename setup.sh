#!/bin/sh
# Builds the framework offline from files on disk: the rustc_private driver,
# the syn scanner, and warms the dependency part of the cargo target dirs.
set -e
cd "$(dirname "$0")"
export CARGO_NET_OFFLINE=true
(cd engines/qfacts && cargo +nightly build --release --offline -q)
(cd engines/declscan && cargo build --release --offline -q)
python3 -m qcheck.facts f64-all dec-all f64-serde none >/dev/null
echo "setup ok"
