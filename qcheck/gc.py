"""Removes cached extractions / witness work dirs that belong to a scratch
copy of the repository: python3 -m qcheck.gc <repo path> | --stale"""
import glob
import hashlib
import os
import shutil
import sys

from . import facts


def tag(path):
    return hashlib.sha256(os.path.abspath(path).encode()).hexdigest()[:6]


def clean(path):
    t = tag(path)
    for d in glob.glob(os.path.join(facts.CACHE, "facts", "*-%s-*" % t)) + glob.glob(os.path.join(facts.CACHE, "witness", "*-%s" % t)):
        shutil.rmtree(d, ignore_errors=True)


def stale():
    keep = tag("/repo")
    for d in glob.glob(os.path.join(facts.CACHE, "witness", "*")):
        if not d.endswith("-" + keep):
            shutil.rmtree(d, ignore_errors=True)
    for d in glob.glob(os.path.join(facts.CACHE, "facts", "*")):
        if os.path.isdir(d) and ("-%s-" % keep) not in os.path.basename(d):
            shutil.rmtree(d, ignore_errors=True)


if __name__ == "__main__":
    if sys.argv[1:] == ["--stale"]:
        stale()
    else:
        for p in sys.argv[1:]:
            clean(p)
