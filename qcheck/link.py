"""Links declarations (Engine B) to generated types (Engine A)."""
import os

from . import facts, model


def relfile(p):
    return os.path.relpath(p, facts.REPO)


def span_file_line(span):
    parts = span.rsplit(":", 2)
    return parts[0], int(parts[1])


def link(decl_list, qtypes):
    """Returns [(decl, qtype)] plus the unmatched of either side."""
    pairs = []
    used = set()
    un_d = []
    for d in decl_list:
        rf = relfile(d.file)
        hit = None
        for q in qtypes:
            if id(q) in used or q.name != d.ident:
                continue
            f, ln = span_file_line(q.span)
            if f == rf and d.line_start <= ln <= d.line_end:
                hit = q
                break
        if hit is None:
            un_d.append(d)
        else:
            used.add(id(hit))
            pairs.append((d, hit))
    un_q = [q for q in qtypes if id(q) not in used and q.kind != "dimless"]
    return pairs, un_d, un_q
