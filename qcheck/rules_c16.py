"""C16 — SI prefix table is a consistent bijection.

The lookup functions are `match` tables over literals, so they are decided for
ALL strings and all 256 i8 values from the extracted arms."""
from . import fold, intdom, model, oracle, term as T, ws
from .model import ModelError, peel

SIP = "quantities::si_prefixes::SIPrefix"


def pat_value(p):
    while p["k"] == "deref":
        p = p["sub"]
    if p["k"] == "const":
        if "str" in p:
            return ("str", p["str"])
        if "bits" in p:
            bits = int(p["bits"])
            size = p["size"]
            ty = p["ty"]["s"]
            if ty.startswith("i"):
                if bits >= 1 << (8 * size - 1):
                    bits -= 1 << (8 * size)
            return ("int", bits, ty)
    if p["k"] in ("wild", "bind"):
        return ("default",)
    return ("unsupported", p["k"])


def arg_match_table(U, body, rule, what):
    """[(pattern value, folded arm value)] of `match <param> { lit => const }`."""
    e = peel(body["value"])
    if e["k"] != "match":
        raise ModelError(rule, "%s is not a match table" % what, body["span"])
    s = peel(e["scrut"])
    params = [p["pat"]["name"] for p in body["params"] if p.get("pat", {}).get("k") == "bind"]
    if not (s["k"] == "var" and s["name"] in params):
        raise ModelError(rule, "%s: scrutinee is not a parameter" % what, body["span"])
    rows = []
    for arm in e["arms"]:
        if arm["guard"] is not None:
            raise ModelError(rule, "%s: guarded arm" % what, body["span"])
        p = arm["pat"]
        while p["k"] == "deref":
            p = p["sub"]
        pats = p["pats"] if p["k"] == "or" else [p]
        try:
            val = U.folder.fold(arm["body"])
        except fold.Unfoldable as u:
            raise ModelError(rule, "%s: arm not constant (%s)" % (what, u.what), u.sp or body["span"])
        for q in pats:
            pv = pat_value(q)
            if pv[0] == "unsupported":
                raise ModelError(rule, "%s: unsupported pattern %s" % (what, pv[1]), body["span"])
            rows.append((pv, val))
    return rows


def run(ctx):
    w = ws.load("f64-all")
    ctx.configs.append("f64-all")
    U = w.U
    c = w.fs.get("quantities")
    adt = c.adt_by_path.get(SIP)
    if adt is None:
        raise ModelError("anchor", "enum SIPrefix not found")
    orc = oracle.load_prefixes()
    rows = orc["prefixes"]
    micro = set(orc["micro_alternatives"])
    variants = [v["name"] for v in adt["variants"]]
    discr = {v["name"]: int(v["discr"]) for v in adt["variants"]}
    where = adt["span"]
    ctx.floor("SI prefixes", len(variants), 25)
    # tables
    def tbl(fn):
        b = U.get_body(SIP + "::" + fn)
        if b is None:
            raise ModelError("anchor", "SIPrefix::%s has no body" % fn, where)
        return U.table(b, variants, "table", "SIPrefix::" + fn, enum_path=SIP), b
    names, nb = tbl("name")
    abbrs, ab = tbl("abbr")
    # exp == discriminant cast
    eb = U.get_body(SIP + "::exp")
    if eb is None:
        raise ModelError("anchor", "SIPrefix::exp has no body", where)
    ee = peel(eb["value"])
    ok = ee["k"] == "cast" and ee["to"]["s"] == "i8" and peel(ee["e"])["k"] == "var" and peel(ee["e"])["name"] == "self"
    ctx.ob("exp-is-discriminant", "SIPrefix::exp", ok, "exp() is not the plain discriminant cast `*self as i8`", eb["span"])
    # 1. rows vs oracle
    by_exp = {}
    for v in variants:
        by_exp.setdefault(discr[v], []).append(v)
    ctx.ob("row-count", "SIPrefix", len(variants) == len(rows), "%d variants, SI brochure has %d prefixes" % (len(variants), len(rows)), where)
    for (oname, oabbr, oexp) in rows:
        inst = "10^%d" % oexp
        vs = by_exp.get(oexp, [])
        if len(vs) != 1:
            ctx.fail("row", inst, "expected exactly one prefix with exponent %d, found %s" % (oexp, vs), where)
            continue
        v = vs[0]
        n = names[v]
        a = abbrs[v]
        ctx.ob("row-name", inst, n[0] == "str" and n[1].lower() == oname.lower(),
               "prefix with exponent %d is named %r, SI brochure: %r" % (oexp, n, oname), nb["span"])
        okab = a[0] == "str" and (a[1] == oabbr or (oabbr in micro and a[1] in micro))
        ctx.ob("row-abbr", inst, okab, "prefix %s has abbreviation %r, SI brochure: %r" % (v, a, oabbr), ab["span"])
        ctx.ob("row-ident", inst, v.lower() == (oname or "none").lower(),
               "variant %s carries exponent %d which belongs to %r" % (v, oexp, oname or "none"), where)
        ctx.sample({"variant": v, "name": n[1], "abbr": a[1], "exp": discr[v]})
    extra = [v for v in variants if discr[v] not in {r[2] for r in rows}]
    ctx.ob("row-extra", "SIPrefix", not extra, "variants with exponents outside the SI table: %s" % extra, where)
    # 2. injectivity
    for label, t in (("abbr", {v: abbrs[v] for v in variants}), ("exp", discr), ("name", {v: names[v] for v in variants})):
        inv = {}
        for v, x in t.items():
            inv.setdefault(repr(x), []).append(v)
        dup = {k: vs for k, vs in inv.items() if len(vs) > 1}
        ctx.ob("injective", label, not dup, "%s is not injective: %s" % (label, dup), where)
    # 3/4. lookups decided on all inputs
    # from_abbr: the gated summary (and the closures of an iterator search) may use the argument only in
    # equality comparisons — with string literals or with abbr(prefix) — so it is a function on
    # {the literals} + {the abbreviations} + {any other string}; evaluated on each class by the model interpreter
    from . import conc, rules_c09

    class PrefixTable:
        """the enum as a table for the model interpreter (values are variant names)"""
        variants_const = order_for_iter = None
        tables = {}
        ref_unit_hru = ref_unit_lsu = None
    b = U.get_body(SIP + "::from_abbr")
    if b is None:
        raise ModelError("anchor", "SIPrefix::from_abbr has no body", where)
    ev = T.Evaluator(U, keep_tags=False)
    abbr_ok = True
    try:
        outs = ev.summarize(b)
        bad = rules_c09.key_only_compared(outs, ev, ("==",))
    except T.Unsupported as x:
        # reported, but from_exp below is still judged on its own
        ctx.fail("lookup", "anchor", "anchor missing / unsupported construct: SIPrefix::from_abbr: unsupported construct %s" % x.what, x.sp or b["span"])
        abbr_ok, outs, bad = False, [], None
    if abbr_ok:
        ctx.ob("lookup-key-use", "from_abbr", not bad, "from_abbr uses its argument outside equality comparisons (%s)" % bad, b["span"])
    lits = set()

    def collect(t):
        if isinstance(t, tuple):
            if t[0] == "str":
                lits.add(t[1])
            elif t[0] == "closure":
                for (g, k, x) in ev.summarize_closure(t, [T.P(100, "u")]):
                    for a, _p in g:
                        collect(a)
                    collect(x)
            elif t[0] == "app":
                for x in t[3]:
                    collect(x)
            elif t[0] not in ("p", "num", "bool", "variant", "none", "const"):
                for x in t[1:]:
                    collect(x)
    for (g, k, t) in outs:
        for a, _p in g:
            collect(a)
        collect(t)
    want_ab = {abbrs[v][1]: v for v in variants}
    OTHER = "\x00<any other string>"
    cq = PrefixTable()
    cq.discr = dict(discr)
    for key in (sorted(lits | set(want_ab)) + [OTHER]) if abbr_ok else []:
        label = "<any other string>" if key is OTHER else repr(key)
        try:
            r = conc.Conc(U, cq, ev).pick(outs, {0: key})
        except conc.ModelPanic as x:
            ctx.fail("lookup-total", "from_abbr/%s" % label, "from_abbr(%s) panics: %s" % (label, x), b["span"])
            continue
        except (conc.CannotEvaluate, T.Unsupported) as x:
            ctx.fail("lookup", "from_abbr/%s" % label, "cannot evaluate from_abbr(%s): %s" % (label, x), b["span"])
            continue
        got = r[1] if r is not None else None
        if key is not OTHER and key in want_ab:
            ctx.ob("lookup-hit", "from_abbr/%r" % key, got == want_ab[key],
                   "from_abbr(%r) = %s, but %r is the abbreviation of %s" % (key, got, key, want_ab[key]), b["span"])
        elif key is OTHER:
            ctx.ob("lookup-default", "from_abbr", got is None, "strings matching no abbreviation do not map to None (%s)" % got, b["span"])
        else:
            ctx.ob("lookup-miss", "from_abbr/%r" % key, got is None,
                   "from_abbr(%r) = %s although no prefix has that abbreviation" % (key, got), b["span"])
    # from_exp: the gated summary is evaluated for each of the 256 values of i8
    # (integer semantics with overflow checks, see intdom.py)
    b = U.get_body(SIP + "::from_exp")
    if b is None:
        raise ModelError("anchor", "SIPrefix::from_exp has no body", where)
    ev_exp = T.Evaluator(U, keep_tags=False)
    folded = None
    try:
        outs = ev_exp.summarize(b)
    except T.Unsupported as x:
        # no closed term (e.g. a hand-written loop over a constant table): the function is constant-folded at
        # each of the 256 constant arguments instead (ctfe.py)
        from . import ctfe
        from fractions import Fraction
        folded = {}
        for v in range(-128, 128):
            try:
                folded[v] = ("val", ctfe.Ctfe(U, lambda path, variant: discr.get(variant) if path == SIP else None)
                             .call_body(b, [("num", Fraction(v), "i8", str(v))]))
            except ctfe.FoldPanic as pnc:
                folded[v] = ("panic", str(pnc))
            except ctfe.CannotFold as cf:
                raise ModelError("lookup", "SIPrefix::from_exp: unsupported construct %s (and it cannot be constant-folded: %s)"
                                 % (x.what, cf.what), cf.sp or x.sp or b["span"])
        outs = None
        ctx.extra["from_exp_decided_by"] = "constant folding at each of the 256 arguments"
    ie = intdom.IntEval(8, True)
    want_exp = {discr[v]: v for v in variants}
    n_none = 0
    for x in range(-128, 128):
        inst = "from_exp/%d" % x
        try:
            if folded is not None:
                if folded[x][0] == "panic":
                    raise intdom.Panic(folded[x][1])
                k, t = folded[x]
            else:
                k, t = ie.pick(outs, {0: x})
        except intdom.Panic as pnc:
            ctx.fail("lookup-total", inst, "from_exp(%d) panics: %s" % (x, pnc), b["span"])
            continue
        except intdom.Unsupported as u:
            # e.g. an iterator search `iter().find(|p| p.exp() == exp)`: no integer arithmetic on the key involved
            try:
                from fractions import Fraction
                if any(T.has_arith(a) for (g, _k, _t) in outs for a, _p in g):
                    raise conc.CannotEvaluate(str(u))
                r = conc.Conc(U, cq, ev_exp).pick(outs, {0: Fraction(x)})
                k, t = "val", (("some", ("variant", SIP, r[1])) if r is not None else ("none",))
            except (conc.CannotEvaluate, conc.ModelPanic, T.Unsupported) as u2:
                ctx.fail("lookup", inst, "cannot evaluate from_exp(%d): %s" % (x, u2), b["span"])
                continue
        if k != "val":
            ctx.fail("lookup-total", inst, "from_exp(%d) diverges" % x, b["span"])
            continue
        got = T.canon(t)
        if not (got == ("none",) or (got[0] == "some" and got[1][0] == "variant")):
            # the selected result is itself a search expression: evaluate it on the table
            try:
                from fractions import Fraction
                if T.has_arith(got):
                    raise conc.CannotEvaluate("arithmetic in the result expression")
                r = conc.Conc(U, cq, ev_exp).eval(got, {0: Fraction(x)})
                got = ("some", ("variant", SIP, r[1])) if r is not None else ("none",)
            except (conc.CannotEvaluate, conc.ModelPanic, T.Unsupported) as u2:
                ctx.fail("lookup", inst, "cannot evaluate from_exp(%d): %s" % (x, u2), b["span"])
                continue
        if x in want_exp:
            ctx.ob("lookup-hit", inst, got == ("some", ("variant", SIP, want_exp[x])),
                   "from_exp(%d) = %s, but %d is the exponent of %s" % (x, T.show(got), x, want_exp[x]), b["span"])
        else:
            n_none += 1
            ctx.ob("lookup-miss", inst, got == ("none",), "from_exp(%d) = %s although no prefix has that exponent" % (x, T.show(got)), b["span"], nontrivial=False)
    ctx.extra["from_exp_values_decided"] = 256
    ctx.extra["from_exp_none_values"] = n_none
    # 5. iteration order
    vb = U.get_body(SIP + "::VARIANTS")
    if vb is None:
        raise ModelError("anchor", "SIPrefix::VARIANTS missing", where)
    v = U.folder.fold(vb["value"])
    order = [x[2] for x in v[1]] if v[0] == "array" else None
    ctx.ob("iter-table", "VARIANTS", order == variants,
           "VARIANTS is not the list of all variants in declaration order: %s" % (order,), vb["span"])
    inc = all(discr[variants[i]] < discr[variants[i + 1]] for i in range(len(variants) - 1))
    ctx.ob("iter-increasing", "VARIANTS", inc, "discriminants are not strictly increasing in declaration order", where)
    ib = U.get_body(SIP + "::iter")
    if ib is None:
        raise ModelError("anchor", "SIPrefix::iter missing", where)
    ie = peel(ib["value"])
    ok = False
    if ie["k"] == "call" and ie.get("fn", {}).get("path") == "core::slice::<impl [T]>::iter":
        a = peel(ie["args"][0])
        ok = a["k"] == "const" and a["path"] == SIP + "::VARIANTS"
    ctx.ob("iter-source", "SIPrefix::iter", ok, "iter() is not `Self::VARIANTS.iter()`", ib["span"])
    ctx.exhaustive = True
    ctx.rule_text = "one obligation per SI-brochure row x attribute, per lookup literal (decides all strings / all 256 i8 values), injectivity, iteration order"
    ctx.trusted = ["rustc match semantics (first matching arm)", "oracle/si_prefixes.json (SI brochure table)", "core::slice::iter yields elements in index order"]
    ctx.explanation = ("The four 25-row tables, the discriminants and the two lookup functions are extracted as constant tables from the "
                       "type-checked program; lookups are match tables over literals, hence decided for every input, not sampled.")
