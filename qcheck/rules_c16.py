"""C16 — SI prefix table is a consistent bijection.

The lookup functions are `match` tables over literals, so they are decided for
ALL strings and all 256 i8 values from the extracted arms."""
from . import fold, intdom, model, oracle, term as T, ws
from .model import ModelError, peel

SIP = "quantities::si_prefixes::SIPrefix"


def pat_value(p):
    while p["k"] == "deref":
        p = p["sub"]
    if p["k"] == "const":
        if "str" in p:
            return ("str", p["str"])
        if "bits" in p:
            bits = int(p["bits"])
            size = p["size"]
            ty = p["ty"]["s"]
            if ty.startswith("i"):
                if bits >= 1 << (8 * size - 1):
                    bits -= 1 << (8 * size)
            return ("int", bits, ty)
    if p["k"] in ("wild", "bind"):
        return ("default",)
    return ("unsupported", p["k"])


def arg_match_table(U, body, rule, what):
    """[(pattern value, folded arm value)] of `match <param> { lit => const }`."""
    e = peel(body["value"])
    if e["k"] != "match":
        raise ModelError(rule, "%s is not a match table" % what, body["span"])
    s = peel(e["scrut"])
    params = [p["pat"]["name"] for p in body["params"] if p.get("pat", {}).get("k") == "bind"]
    if not (s["k"] == "var" and s["name"] in params):
        raise ModelError(rule, "%s: scrutinee is not a parameter" % what, body["span"])
    rows = []
    for arm in e["arms"]:
        if arm["guard"] is not None:
            raise ModelError(rule, "%s: guarded arm" % what, body["span"])
        p = arm["pat"]
        while p["k"] == "deref":
            p = p["sub"]
        pats = p["pats"] if p["k"] == "or" else [p]
        try:
            val = U.folder.fold(arm["body"])
        except fold.Unfoldable as u:
            raise ModelError(rule, "%s: arm not constant (%s)" % (what, u.what), u.sp or body["span"])
        for q in pats:
            pv = pat_value(q)
            if pv[0] == "unsupported":
                raise ModelError(rule, "%s: unsupported pattern %s" % (what, pv[1]), body["span"])
            rows.append((pv, val))
    return rows


def run(ctx):
    w = ws.load("f64-all")
    ctx.configs.append("f64-all")
    U = w.U
    c = w.fs.get("quantities")
    adt = c.adt_by_path.get(SIP)
    if adt is None:
        raise ModelError("anchor", "enum SIPrefix not found")
    orc = oracle.load_prefixes()
    rows = orc["prefixes"]
    micro = set(orc["micro_alternatives"])
    variants = [v["name"] for v in adt["variants"]]
    discr = {v["name"]: int(v["discr"]) for v in adt["variants"]}
    where = adt["span"]
    ctx.floor("SI prefixes", len(variants), 25)
    # tables
    def tbl(fn):
        b = U.body.get(SIP + "::" + fn)
        if b is None:
            raise ModelError("anchor", "SIPrefix::%s has no body" % fn, where)
        return U.table(b, variants, "table", "SIPrefix::" + fn), b
    names, nb = tbl("name")
    abbrs, ab = tbl("abbr")
    # exp == discriminant cast
    eb = U.body.get(SIP + "::exp")
    if eb is None:
        raise ModelError("anchor", "SIPrefix::exp has no body", where)
    ee = peel(eb["value"])
    ok = ee["k"] == "cast" and ee["to"]["s"] == "i8" and peel(ee["e"])["k"] == "var" and peel(ee["e"])["name"] == "self"
    ctx.ob("exp-is-discriminant", "SIPrefix::exp", ok, "exp() is not the plain discriminant cast `*self as i8`", eb["span"])
    # 1. rows vs oracle
    by_exp = {}
    for v in variants:
        by_exp.setdefault(discr[v], []).append(v)
    ctx.ob("row-count", "SIPrefix", len(variants) == len(rows), "%d variants, SI brochure has %d prefixes" % (len(variants), len(rows)), where)
    for (oname, oabbr, oexp) in rows:
        inst = "10^%d" % oexp
        vs = by_exp.get(oexp, [])
        if len(vs) != 1:
            ctx.fail("row", inst, "expected exactly one prefix with exponent %d, found %s" % (oexp, vs), where)
            continue
        v = vs[0]
        n = names[v]
        a = abbrs[v]
        ctx.ob("row-name", inst, n[0] == "str" and n[1].lower() == oname.lower(),
               "prefix with exponent %d is named %r, SI brochure: %r" % (oexp, n, oname), nb["span"])
        okab = a[0] == "str" and (a[1] == oabbr or (oabbr in micro and a[1] in micro))
        ctx.ob("row-abbr", inst, okab, "prefix %s has abbreviation %r, SI brochure: %r" % (v, a, oabbr), ab["span"])
        ctx.ob("row-ident", inst, v.lower() == (oname or "none").lower(),
               "variant %s carries exponent %d which belongs to %r" % (v, oexp, oname or "none"), where)
        ctx.sample({"variant": v, "name": n[1], "abbr": a[1], "exp": discr[v]})
    extra = [v for v in variants if discr[v] not in {r[2] for r in rows}]
    ctx.ob("row-extra", "SIPrefix", not extra, "variants with exponents outside the SI table: %s" % extra, where)
    # 2. injectivity
    for label, t in (("abbr", {v: abbrs[v] for v in variants}), ("exp", discr), ("name", {v: names[v] for v in variants})):
        inv = {}
        for v, x in t.items():
            inv.setdefault(repr(x), []).append(v)
        dup = {k: vs for k, vs in inv.items() if len(vs) > 1}
        ctx.ob("injective", label, not dup, "%s is not injective: %s" % (label, dup), where)
    # 3/4. lookups decided on all inputs
    # from_abbr: the gated summary may test the argument only by equality with
    # string literals, so it is a function on {the literals} + {any other string}
    b = U.body.get(SIP + "::from_abbr")
    if b is None:
        raise ModelError("anchor", "SIPrefix::from_abbr has no body", where)
    try:
        outs = T.Evaluator(U, keep_tags=False).summarize(b)
    except T.Unsupported as x:
        raise ModelError("lookup", "SIPrefix::from_abbr: unsupported construct %s" % x.what, x.sp or b["span"])
    p0 = ("p", 0, b["params"][0]["pat"]["name"])
    lits = set()
    for at in T.guard_atoms(outs):
        a = T.canon(at)
        if a[0] == "==" and p0 in (a[1], a[2]) and (a[1][0] == "str" or a[2][0] == "str"):
            lits.add(a[1][1] if a[1][0] == "str" else a[2][1])
        else:
            raise ModelError("lookup", "SIPrefix::from_abbr tests its argument other than by equality with a string literal: %s" % T.show(a), b["span"])

    def abbr_result(sval):
        hit = []
        for (g, k, t) in outs:
            okg = True
            for at, pol in g:
                a = T.canon(at)
                lit = a[1][1] if a[1][0] == "str" else a[2][1]
                if (sval == lit) != pol:
                    okg = False
                    break
            if okg:
                hit.append((k, T.canon(t)))
        return hit
    want_ab = {abbrs[v][1]: v for v in variants}
    OTHER = object()
    for key in sorted(lits | set(want_ab)) + [OTHER]:
        hit = abbr_result(key)
        label = "<any other string>" if key is OTHER else repr(key)
        if len(hit) != 1 or hit[0][0] != "val":
            ctx.fail("lookup", "from_abbr/%s" % label, "from_abbr(%s) has %d applicable outcomes / diverges" % (label, len(hit)), b["span"])
            continue
        got = hit[0][1]
        if key is not OTHER and key in want_ab:
            exp_t = ("some", ("variant", SIP, want_ab[key]))
            ctx.ob("lookup-hit", "from_abbr/%r" % key, got == exp_t,
                   "from_abbr(%r) = %s, but %r is the abbreviation of %s" % (key, T.show(got), key, want_ab[key]), b["span"])
        elif key is OTHER:
            ctx.ob("lookup-default", "from_abbr", got == ("none",), "strings matching no abbreviation do not map to None (%s)" % T.show(got), b["span"])
        else:
            ctx.ob("lookup-miss", "from_abbr/%r" % key, got == ("none",),
                   "from_abbr(%r) = %s although no prefix has that abbreviation" % (key, T.show(got)), b["span"])
    # from_exp: the gated summary is evaluated for each of the 256 values of i8
    # (integer semantics with overflow checks, see intdom.py)
    b = U.body.get(SIP + "::from_exp")
    if b is None:
        raise ModelError("anchor", "SIPrefix::from_exp has no body", where)
    try:
        outs = T.Evaluator(U, keep_tags=False).summarize(b)
    except T.Unsupported as x:
        raise ModelError("lookup", "SIPrefix::from_exp: unsupported construct %s" % x.what, x.sp or b["span"])
    ie = intdom.IntEval(8, True)
    want_exp = {discr[v]: v for v in variants}
    n_none = 0
    for x in range(-128, 128):
        inst = "from_exp/%d" % x
        try:
            k, t = ie.pick(outs, {0: x})
        except intdom.Panic as pnc:
            ctx.fail("lookup-total", inst, "from_exp(%d) panics: %s" % (x, pnc), b["span"])
            continue
        except intdom.Unsupported as u:
            ctx.fail("lookup", inst, "cannot evaluate from_exp(%d): %s" % (x, u), b["span"])
            continue
        if k != "val":
            ctx.fail("lookup-total", inst, "from_exp(%d) diverges" % x, b["span"])
            continue
        got = T.canon(t)
        if x in want_exp:
            ctx.ob("lookup-hit", inst, got == ("some", ("variant", SIP, want_exp[x])),
                   "from_exp(%d) = %s, but %d is the exponent of %s" % (x, T.show(got), x, want_exp[x]), b["span"])
        else:
            n_none += 1
            ctx.ob("lookup-miss", inst, got == ("none",), "from_exp(%d) = %s although no prefix has that exponent" % (x, T.show(got)), b["span"], nontrivial=False)
    ctx.extra["from_exp_values_decided"] = 256
    ctx.extra["from_exp_none_values"] = n_none
    # 5. iteration order
    vb = U.body.get(SIP + "::VARIANTS")
    if vb is None:
        raise ModelError("anchor", "SIPrefix::VARIANTS missing", where)
    v = U.folder.fold(vb["value"])
    order = [x[2] for x in v[1]] if v[0] == "array" else None
    ctx.ob("iter-table", "VARIANTS", order == variants,
           "VARIANTS is not the list of all variants in declaration order: %s" % (order,), vb["span"])
    inc = all(discr[variants[i]] < discr[variants[i + 1]] for i in range(len(variants) - 1))
    ctx.ob("iter-increasing", "VARIANTS", inc, "discriminants are not strictly increasing in declaration order", where)
    ib = U.body.get(SIP + "::iter")
    if ib is None:
        raise ModelError("anchor", "SIPrefix::iter missing", where)
    ie = peel(ib["value"])
    ok = False
    if ie["k"] == "call" and ie.get("fn", {}).get("path") == "core::slice::<impl [T]>::iter":
        a = peel(ie["args"][0])
        ok = a["k"] == "const" and a["path"] == SIP + "::VARIANTS"
    ctx.ob("iter-source", "SIPrefix::iter", ok, "iter() is not `Self::VARIANTS.iter()`", ib["span"])
    ctx.exhaustive = True
    ctx.rule_text = "one obligation per SI-brochure row x attribute, per lookup literal (decides all strings / all 256 i8 values), injectivity, iteration order"
    ctx.trusted = ["rustc match semantics (first matching arm)", "oracle/si_prefixes.json (SI brochure table)", "core::slice::iter yields elements in index order"]
    ctx.explanation = ("The four 25-row tables, the discriminants and the two lookup functions are extracted as constant tables from the "
                       "type-checked program; lookups are match tables over literals, hence decided for every input, not sampled.")
