"""Decoder for the format_args! template byte code of the pinned nightly
(rustc_ast_lowering/src/format.rs, core::fmt): fails closed on anything it
does not understand."""


class FmtDecodeError(Exception):
    pass


def decode(bs):
    """-> list of ('lit', str) | ('ph', {pos, flags.., width, precision})"""
    out = []
    i = 0
    implicit = 0
    bs = list(bs)
    while True:
        if i >= len(bs):
            raise FmtDecodeError("missing terminator")
        b = bs[i]
        i += 1
        if b == 0:
            if i != len(bs):
                raise FmtDecodeError("data after terminator")
            break
        if b < 0x80:
            s = bytes(bs[i:i + b]).decode("utf-8")
            i += b
            out.append(("lit", s))
        elif b == 0x80:
            n = bs[i] | (bs[i + 1] << 8)
            i += 2
            s = bytes(bs[i:i + n]).decode("utf-8")
            i += n
            out.append(("lit", s))
        elif b & 0xC0 == 0xC0:
            ph = {"fill": " ", "sign_plus": False, "sign_minus": False, "alternate": False, "zero_pad": False,
                  "debug_hex": None, "align": None, "width": None, "precision": None}
            if b & 1:
                fl = bs[i] | (bs[i + 1] << 8) | (bs[i + 2] << 16) | (bs[i + 3] << 24)
                i += 4
                ph["fill"] = chr(fl & 0x1FFFFF)
                ph["sign_plus"] = bool(fl >> 21 & 1)
                ph["sign_minus"] = bool(fl >> 22 & 1)
                ph["alternate"] = bool(fl >> 23 & 1)
                ph["zero_pad"] = bool(fl >> 24 & 1)
                if fl >> 25 & 3:
                    ph["debug_hex"] = fl >> 25 & 3
                has_w = bool(fl >> 27 & 1)
                has_p = bool(fl >> 28 & 1)
                ph["align"] = {0: "left", 1: "right", 2: "center", 3: None}[fl >> 29 & 3]
                if has_w:
                    ph["width"] = ("direct", 0)
                if has_p:
                    ph["precision"] = ("direct", 0)
            if b & 2:
                v = bs[i] | (bs[i + 1] << 8)
                i += 2
                ph["width"] = ("arg" if b & 0x10 else "direct", v)
            if b & 4:
                v = bs[i] | (bs[i + 1] << 8)
                i += 2
                ph["precision"] = ("arg" if b & 0x20 else "direct", v)
            if b & 8:
                pos = bs[i] | (bs[i + 1] << 8)
                i += 2
            else:
                pos = implicit
            implicit = pos + 1
            ph["pos"] = pos
            out.append(("ph", ph))
        else:
            raise FmtDecodeError("unknown opcode 0x%02x" % b)
    # coalesce literals
    res = []
    for p in out:
        if p[0] == "lit" and res and res[-1][0] == "lit":
            res[-1] = ("lit", res[-1][1] + p[1])
        else:
            res.append(p)
    return res
