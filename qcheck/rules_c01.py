"""C01 — unit conversion preserves the physical value (value-flow forms)."""
from . import generic as G, model, ovequiv, spec as S, term as T, ws
from .model import ModelError

self_ = S.P(0, "self")
# default methods the conversion is built from, per trait
# the default methods of the pinned tree (each is named by the rules of some property)
KNOWN_DEFAULTS = {"Unit": {"from_symbol", "as_qty", "fmt"}, "LinearScaledUnit": {"from_scale", "is_ref_unit", "ratio"},
                  "Quantity": {"iter_units", "unit_from_symbol", "eq", "partial_cmp", "add", "sub", "div", "fmt"},
                  "HasRefUnit": {"unit_from_scale", "equiv_amount", "convert", "eq", "partial_cmp", "add", "sub", "div", "_fit"}}
RELEVANT = {"HasRefUnit": {"equiv_amount", "convert"}, "LinearScaledUnit": {"ratio"}, "Quantity": set()}


def record_axioms(ctx, w, config):
    """new/amount/unit of every impl Quantity: amount(new(a,u)) = a and
    unit(new(a,u)) = u (or the sole unit)."""
    U = w.U
    n = 0
    for q in w.qtypes:
        imp = q.impl_quantity
        inst = "%s/%s" % (config, q.path)
        bodies = {}
        for fn in ("new", "amount", "unit"):
            b = U.item_body(imp, fn)
            if b is None:
                ctx.fail("record-axiom", inst, "impl Quantity for %s has no body for %s" % (q.path, fn), imp["span"])
                break
            bodies[fn] = b
        else:
            n += 1
            ev = T.Evaluator(U, keep_tags=False)
            a, u = S.P(0, "amount"), S.P(1, "unit")
            try:
                outs = ev.summarize(bodies["new"], args=[a, u])
                if len(outs) != 1 or outs[0][1] != "val" or outs[0][0]:
                    raise T.Unsupported("constructor is not a single unconditional value")
                tnew = outs[0][2]
                oa = ev.summarize(bodies["amount"], args=[tnew])
                ou = ev.summarize(bodies["unit"], args=[tnew])
            except T.Unsupported as x:
                ctx.fail("record-axiom", inst, "unsupported construct in new/amount/unit: %s" % x.what, x.sp or imp["span"])
                continue
            ok_a = len(oa) == 1 and not oa[0][0] and oa[0][1] == "val" and oa[0][2] == a
            if len(q.variants) == 1:
                want_u = ("variant", q.unit_path, q.variants[0])
                ok_u = len(ou) == 1 and not ou[0][0] and ou[0][1] == "val" and ou[0][2] in (u, want_u)
            else:
                ok_u = len(ou) == 1 and not ou[0][0] and ou[0][1] == "val" and ou[0][2] == u
            ctx.ob("record-axiom", inst + "/amount", ok_a,
                   "amount(new(a, u)) = %s, expected a" % "; ".join(T.show(x[2]) for x in oa), bodies["amount"]["span"])
            ctx.ob("record-axiom", inst + "/unit", ok_u,
                   "unit(new(a, u)) = %s, expected u" % "; ".join(T.show(x[2]) for x in ou), bodies["unit"]["span"])
            # the constructor stores nothing else: struct fields are exactly amount (+ unit)
            if q.kind != "dimless":
                if tnew[0] != "adt" or tnew[1] != q.path:
                    ctx.fail("record-axiom", inst + "/new", "new(a, u) = %s is not a %s value" % (T.show(tnew), q.path), bodies["new"]["span"])
                else:
                    ctx.ob("record-axiom", inst + "/new", True, "", bodies["new"]["span"])
            else:
                ctx.ob("record-axiom", inst + "/new", tnew == a, "new(a, _) = %s, expected a" % T.show(tnew), bodies["new"]["span"])
    return n


def conversion_accuracy(ctx, config, w):
    """Decimal back-end: for every reference-unit type and ordered unit pair the
    term equiv_amount evaluates must scale the amount by the exact scale ratio
    up to the rounding of an 18-digit decimal: relative error of the effective
    coefficient <= 1e-18, accumulated absolute rounding <= 1e-18."""
    from . import accuracy as A
    U = w.U
    to = S.P(1, "unit")
    outs, b, _ = G.summarize(U, G.HRU + "equiv_amount", G.INL_CONV)
    uq = S.unit(self_)
    sa, sb = T.canon(S.scale(uq)), T.canon(S.scale(to))
    amounts = {T.canon(S.amount(self_))}
    n = 0
    for q in w.qtypes:
        if q.kind != "ref" or "scale" not in q.tables:
            continue
        rows = [(v, q.tables["scale"][v][1]) for v in q.variants_const]
        for (u, su) in rows:
            for (v, sv) in rows:
                if u == v:
                    continue
                inst = "%s/%s/%s->%s" % (config, q.path, u, v)
                try:
                    k, t = A.select(outs, {sa: su, sb: sv}, {T.canon(uq): u, T.canon(to): v})
                    if k != "val":
                        raise A.Unsupported("conversion diverges")
                    r = A.analyse(t, {sa: su, sb: sv}, amounts)
                    if r[0] != "l":
                        raise A.Unsupported("result does not depend on the amount")
                except A.Overflow as x:
                    ctx.ob("conversion-accuracy", inst, False,
                           "converting %s to %s (%s) panics in the decimal back-end for EVERY amount: %s" % (u, v, q.path, x), b["span"], nontrivial=False)
                    continue
                except A.Unsupported as x:
                    ctx.fail("conversion-accuracy", inst, "cannot analyse the conversion term: %s" % x, b["span"])
                    continue
                n += 1
                rel = abs(r[1] - r[2]) / abs(r[2])
                ctx.ob("conversion-accuracy", inst, rel <= A.COEF_TOL and r[3] <= A.ABS_TOL,
                       "converting %s to %s (%s) multiplies the amount by %s where the exact scale ratio is %s: relative error %.3g "
                       "(allowed %.1g; absolute rounding %.3g) — far beyond the rounding of the amount type; term %s"
                       % (u, v, q.path, A_show(r[1]), A_show(r[2]), float(rel), float(A.COEF_TOL), float(r[3]), T.show(t)),
                       b["span"], nontrivial=False)
    return n


def A_show(x):
    return "%.20g" % float(x)


def run_config(ctx, config):
    w = ws.load(config)
    U = w.U
    ctx.configs.append(config)
    a = S.amount(self_)
    uq = S.unit(self_)
    # 1. ratio
    u0, u1 = S.P(0, "self"), S.P(1, "other")
    G.check_spec(ctx, "ratio", config, U, G.LSU + "ratio", set(), [],
                 lambda val: ("val", S.R(("/", S.scale(u0), S.scale(u1)))))
    # 2. equiv_amount
    to = S.P(1, "unit")
    same = T.canon(("==", uq, to))
    G.check_spec(ctx, "equiv_amount", config, U, G.HRU + "equiv_amount", G.INL_CONV, [same],
                 lambda val: ("val", a) if val(same)
                 else ("val", S.R(("/", ("*", a, S.scale(uq)), S.scale(to)))))
    # 3. convert
    to2 = S.P(1, "to_unit")
    same2 = T.canon(("==", uq, to2))
    G.check_spec(ctx, "convert", config, U, G.HRU + "convert", G.INL_CONV, [same2],
                 lambda val: ("val", S.new(a, to2)) if val(same2)
                 else ("val", S.new(S.R(("/", ("*", a, S.scale(uq)), S.scale(to2))), to2)))
    G.check_spec(ctx, "convert-stores-equiv-amount", config, U, G.HRU + "convert", set(), [],
                 lambda val: ("val", S.new(S.app("HasRefUnit::equiv_amount", self_, to2), to2)))
    if config.startswith("dec"):
        n = conversion_accuracy(ctx, config, w)
        ctx.floor("%s: ordered unit pairs with analysed conversion accuracy" % config, n, 600)
    # 4. record axioms
    G.unit_identity(ctx, config, w)
    n = record_axioms(ctx, w, config)
    ctx.floor("%s: impl Quantity types" % config, n, 19 if config == "f64-all" else 15)
    # 5. overrides of the HasRefUnit / LinearScaledUnit defaults
    for trait, allowed, what in ((model.T_HRU, {"REF_UNIT"}, "HasRefUnit"), (model.T_LSU, {"REF_UNIT", "scale"}, "LinearScaledUnit"),
                                 (model.T_QUANTITY, {"UnitType", "new", "amount", "unit"}, "Quantity")):
        ov = G.overrides(ctx, "override", U, trait, allowed, what)
        for tk, (extra, imp) in ov.items():
            # only the defaults conversion is built from matter here; an override of one of them is accepted when it
            # is the default specialised to that type (ovequiv.py)
            extra = [x for x in extra if x in RELEVANT[what]]
            if extra:
                extra = ovequiv.filter_equivalent(ctx, "override", config, w, what, tk, extra, imp)
            if not extra:
                continue
            ctx.fail("override", "%s/%s/%s" % (config, what, tk),
                     "impl %s for %s overrides default item(s) %s with something other than the default specialised to this type — the generic analysis does not cover it" % (what, tk, extra) + ovequiv.reasons(ctx, config, tk, what, extra), imp["span"])
        ctx.ob("override", "%s/%s" % (config, what), True, "")
    # 5b. helper defaults added later (not among the defaults the rules of any property name): every rule looks through
    # them in the generic bodies, so a type that overrides one must override it with the default specialised to it
    for trait, what in ((model.T_UNIT, "Unit"), (model.T_LSU, "LinearScaledUnit"), (model.T_QUANTITY, "Quantity"), (model.T_HRU, "HasRefUnit")):
        t = U.trait_items.get(trait)
        if t is None:
            continue
        defaults = {i["name"] for i in t["items"] if i.get("has_default") and i.get("kind") == "fn"}
        helpers = defaults - KNOWN_DEFAULTS[what]
        if not helpers:
            continue
        for imp in U.all_impls(trait):
            names = [i["name"] for i in imp["items"] if i["name"] in helpers]
            if not names:
                continue
            tk = model.ty_key(imp["self_ty"])
            left = ovequiv.filter_equivalent(ctx, "helper-override", config, w, what, tk, names, imp)
            if left:
                ctx.fail("helper-override", "%s/%s/%s" % (config, what, tk),
                         "impl %s for %s overrides the helper default(s) %s with something other than the default specialised to this type — "
                         "the generic analyses look through the default" % (what, tk, left) + ovequiv.reasons(ctx, config, tk, what, left), imp["span"])
    # 6. scale tables total, finite, positive
    for q in w.qtypes:
        if q.kind not in ("ref", "dimless"):
            continue
        t = q.tables.get("scale")
        if t is None:
            ctx.fail("scale-table", "%s/%s" % (config, q.path), "no scale table", q.span)
            continue
        bad = [v for v in q.variants if v not in t or t[v][0] != "num" or t[v][1] <= 0]
        ctx.ob("scale-table", "%s/%s" % (config, q.path), not bad,
               "scale not a positive constant for units %s" % bad, q.span)


def run(ctx):
    # thorough: the same rules on the no_std builds of both back-ends (independent of C19's body-identity argument)
    for config in ("f64-all", "dec-all") + (("f64-nostd", "dec-nostd") if ctx.tier == "thorough" else ()):
        run_config(ctx, config)
    ctx.rule_text = ("one obligation per generic mechanism x configuration (value-flow form vs specification, compared over the "
                     "truth table of its guards), plus record axioms per impl Quantity and override checks per impl")
    ctx.trusted = ["rustc THIR construction and trait resolution", "IEEE-754 / fpdec arithmetic: each arithmetic node is one correctly rounded operation",
                   "derived PartialEq of field-less unit enums is discriminant equality"]
    ctx.assumptions = ["f64: magnitude of the rounding error is not decided beyond the operation count (converted path = 2 operations, same-unit path = 0); "
                       "decimal: forward error analysis per ordered unit pair (effective coefficient vs exact ratio, tolerance 1e-18 relative)"]
    ctx.explanation = ("Gated value-flow summaries of LinearScaledUnit::ratio, HasRefUnit::equiv_amount and ::convert (generic bodies, so all types, "
                       "unit pairs and amounts at once) are compared with the specified rational function / exact tree; record axioms of every generated "
                       "new/amount/unit by composition; no impl overrides the analysed defaults; every scale table is total and positive.")
