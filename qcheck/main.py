"""Entry point: python3 -m qcheck.main <Cxx> [--tier quick|thorough] [--replay path]"""
import argparse
import importlib
import json
import os
import sys
import traceback

from . import core, facts, model

LEVELS = {
    "C01": "other", "C02": "other", "C03": "other", "C04": "other", "C05": "other",
    "C06": "proof", "C07": "proof", "C08": "other", "C09": "proof", "C10": "other",
    "C11": "translation_validation", "C12": "other", "C13": "other", "C14": "other",
    "C15": "other", "C16": "proof", "C17": "other", "C18": "other", "C19": "proof",
}


def main():
    ap = argparse.ArgumentParser()
    ap.add_argument("prop")
    ap.add_argument("--tier", default=os.environ.get("VERIF_TIER", "quick"))
    ap.add_argument("--replay")
    a = ap.parse_args()
    prop = a.prop.upper()
    seed = int(os.environ.get("VERIF_SEED", "0") or 0)
    only = None
    if a.replay:
        only = json.load(open(a.replay))["key"]
    ctx = core.Ctx(prop, a.tier, seed, LEVELS[prop], only_key=only)
    try:
        mod = importlib.import_module("qcheck.rules_" + prop.lower())
        mod.run(ctx)
    except model.ModelError as e:
        ctx.fail(e.rule, "anchor", "anchor missing / unsupported construct: %s" % e.what, e.where)
    except facts.ExtractionError as e:
        tail = "\n".join(e.log.strip().splitlines()[-25:])
        ctx.fail("build", e.config, "the tree does not build in configuration %s:\n%s" % (e.config, tail), "cargo check")
    except Exception:
        traceback.print_exc()
        ctx.fail("internal", "exception", "checker raised an exception: " + traceback.format_exc().splitlines()[-1])
    sys.exit(ctx.finish())


if __name__ == "__main__":
    main()
