"""A3 — gated value-flow summaries of exported THIR bodies.

`summarize(U, body, ...)` evaluates an acyclic body symbolically and returns a
list of outcomes  (guard, kind, term)  where

* guard is a tuple of (boolean term, polarity) pairs (a conjunction),
* kind is 'val' (function result), or 'panic' (diverging call),
* term is a tuple tree:
    ('p', i, name)                       parameter i
    ('num', Fraction, ty)                numeric constant in its type
    ('str', s) ('bool', b) ('unit',)
    ('variant', enum_path, name)         field-less enum variant
    ('some', t) ('none',)
    ('adt', path, variant, ((field, t), ...))
    ('tuple', (t, ...)) ('array', (t, ...))
    ('field', t, name)   ('vfield', t, variant, idx)
    ('+', a, b) ('-', a, b) ('*', a, b) ('/', a, b) ('neg', a) ('abs', a)
    ('==', a, b) ('<', a, b) ('<=', a, b) ('pcmp', a, b)
    ('and', a, b) ('or', a, b) ('not', a)
    ('isvar', t, variant)                enum variant test
    ('app', fname, tag, (args...))       uninterpreted call (resolved name)
    ('closure', def_path, ((var_id, t), ...))
    ('const', path, tag)                 named constant that is not folded
    ('cast', t, ty)
    ('panic', site)
References are snapshots (deref(ref(t)) = t): sound for the analysed bodies
because none of them writes through a reference except (a) the Formatter,
treated as an opaque effect, and (b) `Iterator::next(&mut it)`, modelled
explicitly as a state update of `it`.  Any other `&mut` argument is
`Unsupported` (fail closed).  This is data-flow on a loop-free tree; no path
condition is sent to a solver.
"""
from fractions import Fraction

from . import fold as F
from .model import ty_key

QT = {
    "quantities::Unit": "Unit",
    "quantities::LinearScaledUnit": "LinearScaledUnit",
    "quantities::Quantity": "Quantity",
    "quantities::HasRefUnit": "HasRefUnit",
    "quantities::converter::Converter": "Converter",
}
ARITH = {
    "core::ops::arith::Add": "+", "core::ops::arith::Sub": "-",
    "core::ops::arith::Mul": "*", "core::ops::arith::Div": "/",
}
ASSIGN_ARITH = {"core::ops::arith::AddAssign": "+", "core::ops::arith::SubAssign": "-", "core::ops::arith::MulAssign": "*",
                "core::ops::arith::DivAssign": "/", "core::ops::arith::RemAssign": "%"}
ITER = "core::iter::traits::iterator::Iterator::"
ITER_NEXT = ITER + "next"
BINOPS = {"Add": "+", "Sub": "-", "Mul": "*", "Div": "/", "Rem": "%"}
AMOUNT = ("f64", "fpdec::Decimal")
COMMUTATIVE = ("+", "*", "==", "and", "or")


class Unsupported(Exception):
    def __init__(self, what, sp=None):
        super().__init__(what)
        self.what = what
        self.sp = sp


def strip_ref(tk):
    while tk.startswith("&"):
        tk = tk[1:]
        if tk.startswith("mut "):
            tk = tk[4:]
    return tk


# ---------------------------------------------------------------- canon
class PName(str):
    """Display name of a parameter term ("p", index, name).  Parameters are
    identified by their index alone: renaming a parameter in the source must
    not change any term, so the name compares equal to every other name and
    is invisible to hashing and to the ordering used by `canon`."""

    def __eq__(self, other):
        return isinstance(other, str)

    def __ne__(self, other):
        return not isinstance(other, str)

    def __hash__(self):
        return 0x5eed

    def __repr__(self):
        return "'_'"


def P(i, name):
    return ("p", i, PName(name))


def scalar_value(e):
    """Value of an exported scalar ({bits, size, ty}): signed integer types are
    decoded from two's complement."""
    bits = int(e["bits"])
    ty = e["ty"]["s"]
    size = {"i8": 1, "i16": 2, "i32": 4, "i64": 8, "i128": 16, "isize": 8}.get(ty)
    if size:
        if bits >= 1 << (8 * size - 1):
            bits -= 1 << (8 * size)
    return bits


def canon(t):
    if not isinstance(t, tuple):
        return t
    h = t[0]
    if h in ("p", "num", "str", "bool", "unit", "variant", "none", "panic", "bytes", "opaque_lit", "fnref", "cv"):
        return t
    if h == "app":
        return ("app", t[1], t[2], tuple(canon(x) for x in t[3]))
    if h == "closure":
        return ("closure", t[1], tuple((i, canon(x)) for i, x in t[2]))
    if h == "lam":
        return ("lam", t[1], t[2], tuple((tuple((canon(a), p) for a, p in g), k, canon(x)) for g, k, x in t[3]))
    if h == "adt":
        return ("adt", t[1], t[2], tuple((n, canon(x)) for n, x in t[3]))
    if h in ("tuple", "array"):
        return (h, tuple(canon(x) for x in t[1]))
    args = [canon(x) if isinstance(x, tuple) else x for x in t[1:]]
    if h in COMMUTATIVE and len(args) == 2:
        args = sorted(args, key=repr)
    if h == "not" and isinstance(args[0], tuple) and args[0][0] == "not":
        return args[0][1]
    return (h,) + tuple(args)


def untag(t):
    """Drops the self-type tags of uninterpreted calls/constants (used when a
    generic body is compared with its specification)."""
    if not isinstance(t, tuple):
        return t
    if t[0] == "app":
        return ("app", t[1], None, tuple(untag(x) for x in t[3]))
    if t[0] == "const":
        return ("const", t[1], None)
    if t[0] in ("p", "num", "str", "bool", "unit", "variant", "none", "panic"):
        return t
    if t[0] == "closure":
        return ("closure", t[1], tuple((i, untag(x)) for i, x in t[2]))
    if t[0] == "lam":
        return ("lam", t[1], t[2], tuple((tuple((untag(a), p) for a, p in g), k, untag(x)) for g, k, x in t[3]))
    if t[0] == "adt":
        return ("adt", t[1], t[2], tuple((n, untag(x)) for n, x in t[3]))
    if t[0] in ("tuple", "array"):
        return (t[0], tuple(untag(x) for x in t[1]))
    return (t[0],) + tuple(untag(x) if isinstance(x, tuple) else x for x in t[1:])


def show(t, depth=0):
    if not isinstance(t, tuple):
        return repr(t)
    h = t[0]
    if h == "p":
        return t[2]
    if h == "num":
        v = t[1]
        return str(v) if v.denominator == 1 else "%s" % float(v)
    if h == "str":
        return repr(t[1])
    if h == "bool":
        return "true" if t[1] else "false"
    if h == "unit":
        return "()"
    if h == "variant":
        return "%s::%s" % (t[1].split("::")[-1], t[2])
    if h == "some":
        return "Some(%s)" % show(t[1])
    if h == "none":
        return "None"
    if h == "app":
        n = t[1].split("::")[-1] if t[1].count("::") > 1 else t[1]
        tag = ("[%s]" % t[2].split("::")[-1]) if t[2] else ""
        return "%s%s(%s)" % (n, tag, ", ".join(show(x) for x in t[3]))
    if h in ("+", "-", "*", "/", "==", "<", "<=", "and", "or"):
        return "(%s %s %s)" % (show(t[1]), h, show(t[2]))
    if h in ("neg", "abs", "not"):
        return "%s(%s)" % (h, show(t[1]))
    if h == "pcmp":
        return "partial_cmp(%s, %s)" % (show(t[1]), show(t[2]))
    if h == "isvar":
        return "%s is %s" % (show(t[1]), t[2])
    if h == "field":
        return "%s.%s" % (show(t[1]), t[2])
    if h == "vfield":
        return "%s.%s#%s" % (show(t[1]), t[2], t[3])
    if h == "adt":
        return "%s{%s}" % (t[1].split("::")[-1], ", ".join("%s: %s" % (n, show(x)) for n, x in t[3]))
    if h in ("tuple", "array"):
        return ("(%s)" if h == "tuple" else "[%s]") % ", ".join(show(x) for x in t[1])
    if h == "closure":
        return "|..|{%s}" % t[1].split("::")[-1]
    if h == "lam":
        return "|item|{%s}" % "; ".join("[%s] %s" % (show_guard(g), show(x)) for g, k, x in t[3])
    if h == "const":
        return t[1].split("::")[-1] + (("[%s]" % t[2].split("::")[-1]) if t[2] else "")
    if h == "cast":
        return "(%s as %s)" % (show(t[1]), t[2])
    if h == "panic":
        return "PANIC"
    return "%s(%s)" % (h, ", ".join(show(x) if isinstance(x, tuple) else repr(x) for x in t[1:]))


def show_guard(g):
    if not g:
        return "true"
    return " ∧ ".join(("" if pol else "¬") + show(a) for a, pol in g)


# ------------------------------------------------------------ evaluator
class State:
    __slots__ = ("guard", "env")

    def __init__(self, guard, env):
        self.guard = guard
        self.env = env


def has_arith(t):
    if not isinstance(t, tuple):
        return False
    if t[0] in ("+", "-", "*", "/", "%", "neg"):
        return True
    if t[0] in ("p", "num", "str", "bool", "unit", "variant", "none", "const", "panic", "bytes", "opaque_lit", "fnref", "cv"):
        return False
    if t[0] == "app":
        return any(has_arith(x) for x in t[3])
    if t[0] == "adt":
        return any(has_arith(x) for _n, x in t[3])
    if t[0] in ("tuple", "array"):
        return any(has_arith(x) for x in t[1])
    if t[0] in ("closure", "lam"):
        return False
    return any(has_arith(x) for x in t[1:] if isinstance(x, tuple))


def subst(t, mapping):
    """Replaces sub-terms (keys are canonical terms)."""
    if not isinstance(t, tuple):
        return t
    if t in mapping:
        return mapping[t]
    h = t[0]
    if h in ("p", "num", "str", "bool", "unit", "variant", "none", "const", "panic", "bytes", "opaque_lit", "fnref", "cv"):
        return t
    if h == "app":
        return ("app", t[1], t[2], tuple(subst(x, mapping) for x in t[3]))
    if h == "closure":
        return ("closure", t[1], tuple((i, subst(x, mapping)) for i, x in t[2]))
    if h == "lam":
        return ("lam", t[1], t[2], tuple((tuple((subst(a, mapping), p) for a, p in g), k, subst(x, mapping)) for g, k, x in t[3]))
    if h == "adt":
        return ("adt", t[1], t[2], tuple((n, subst(x, mapping)) for n, x in t[3]))
    if h in ("tuple", "array"):
        return (h, tuple(subst(x, mapping) for x in t[1]))
    return (h,) + tuple(subst(x, mapping) if isinstance(x, tuple) else x for x in t[1:])


def gadd(guard, atom, pol):
    """guard ∧ (atom == pol); returns None if contradictory."""
    atom = canon(atom)
    if atom[0] == "bool":
        return guard if atom[1] == pol else None
    if atom[0] == "not":
        return gadd(guard, atom[1], not pol)
    for a, p in guard:
        if a == atom:
            return guard if p == pol else None
    return guard + ((atom, pol),)


class Evaluator:
    def __init__(self, U, inline=(), max_depth=6, keep_tags=True, stop=(), overrides=None):
        self.tysubst = []      # generic-argument frames of the bodies being inlined
        self.mut_exprs = {}    # (call node, argument index) -> place expression borrowed mutably
        self.overrides = dict(overrides or {})   # per type: {"Unit::from_symbol": path of the overriding impl method}
        self.U = U
        self.inline = set(inline)
        self.stop = set(stop)   # with inline={"*"}: default methods kept symbolic
        self.max_depth = max_depth
        self.keep_tags = keep_tags
        self.calls_seen = []   # resolved callee descriptions (who-calls)

    # -- entry -------------------------------------------------------------
    def summarize(self, body, args=None, depth=0, guard=()):
        env = {}
        params = body["params"]
        if args is None:
            args = []
            for i, p in enumerate(params):
                nm = p.get("pat", {}).get("name", "p%d" % i)
                args.append(P(i, nm))
        if len(args) != len(params):
            raise Unsupported("arity mismatch calling " + body["def"], body["span"])
        for p, a in zip(params, args):
            if "pat" in p:
                self.bind(p["pat"], a, env, body)
        outs = []
        for (g, kind, t, _e) in self.ev(body["value"], State(guard, env), depth, body):
            if kind in ("val", "ret"):
                outs.append((g, "val", t))
            else:
                outs.append((g, kind, t))
        return outs

    def summarize_closure(self, ct, args, depth=0, guard=()):
        """Applies a closure term to argument terms: [(guard, kind, term)]."""
        if ct[0] == "lam":
            # synthetic closure of a normalised `for` loop: ("lam", first parameter index, arity, outcomes)
            if len(args) != ct[2]:
                raise Unsupported("closure arity mismatch")
            m = {P(ct[1] + i, "item"): a for i, a in enumerate(args)}
            outs = []
            for (g0, k0, t0) in ct[3]:
                gg = guard
                for a, pol in g0:
                    gg = gadd(gg, subst(a, m), pol) if gg is not None else None
                if gg is not None:
                    outs.append((gg, k0, subst(t0, m)))
            return outs
        if ct[0] != "closure":
            raise Unsupported("not a closure: " + show(ct))
        body = self.U.body.get(ct[1])
        if body is None:
            raise Unsupported("closure body not found: " + ct[1])
        env = {vid: t for vid, t in ct[2]}
        params = body["params"][1:]
        if len(params) != len(args):
            raise Unsupported("closure arity mismatch", body["span"])
        for p, a in zip(params, args):
            if "pat" in p:
                self.bind(p["pat"], a, env, body)
        outs = []
        for (g, kind, t, _e) in self.ev(body["value"], State(guard, env), depth, body):
            outs.append((g, "val" if kind in ("val", "ret") else kind, t))
        return outs

    # -- patterns ----------------------------------------------------------
    def bind(self, pat, term, env, body):
        k = pat["k"]
        if k == "bind":
            env[pat["id"]] = term
            if "sub" in pat:
                self.bind(pat["sub"], term, env, body)
        elif k == "wild":
            pass
        elif k == "deref":
            self.bind(pat["sub"], term, env, body)
        elif k == "leaf":
            for s in pat["subs"]:
                self.bind(s["pat"], self.field(term, s["idx"], None), env, body)
        else:
            raise Unsupported("irrefutable pattern kind " + k, body["span"])

    def pat_test(self, pat, term, env, body):
        """Returns (test term or True, bindings applied to env copy)."""
        k = pat["k"]
        if k == "deref":
            return self.pat_test(pat["sub"], term, env, body)
        if k in ("bind", "wild"):
            self.bind(pat, term, env, body)
            return True
        if k == "variant":
            v = pat["variant"]
            test = self.isvar(term, pat["path"], v)
            for s in pat["subs"]:
                sub_t = self.vfield(term, pat["path"], v, s["idx"])
                r = self.pat_test(s["pat"], sub_t, env, body)
                if r is not True:
                    test = ("and", test, r)
            return test
        if k == "or":
            # alternatives without bindings (`"a" | "b"`, `A | B`): the disjunction of the tests
            tests = []
            for alt in pat["pats"]:
                e2 = dict(env)
                r = self.pat_test(alt, term, e2, body)
                if e2 != env:
                    raise Unsupported("or-pattern with bindings", body["span"])
                if r is True:
                    return True
                tests.append(r)
            t = tests[0]
            for x in tests[1:]:
                t = ("or", t, x)
            return t
        if k == "const":
            if pat["ty"]["s"] == "bool" and "bits" in pat:
                return term if int(pat["bits"]) == 1 else ("not", term)
            if "str" in pat:
                c = ("str", pat["str"])
            elif "bits" in pat:
                c = ("num", Fraction(scalar_value(pat)), pat["ty"]["s"])
            else:
                raise Unsupported("constant pattern", body["span"])
            return ("==", term, c)
        if k == "leaf":
            test = True
            for s in pat["subs"]:
                r = self.pat_test(s["pat"], self.field(term, s["idx"], None), env, body)
                if r is not True:
                    test = r if test is True else ("and", test, r)
            return test
        raise Unsupported("pattern kind " + k, body["span"])

    def isvar(self, term, path, v):
        if term[0] == "some":
            return ("bool", v == "Some")
        if term[0] == "none":
            return ("bool", v == "None")
        if term[0] == "variant":
            return ("bool", term[2] == v)
        if term[0] == "adt" and term[1] == path:
            return ("bool", term[2] == v)
        if path == "core::option::Option" and v == "None":
            return ("not", ("isvar", term, "Some"))
        return ("isvar", term, v)

    def vfield(self, term, path, v, idx):
        if term[0] == "some" and v == "Some":
            return term[1]
        if term[0] == "adt" and term[2] == v:
            return term[3][idx][1]
        if path == "core::option::Option" and v == "Some":
            return ("unwrap", term)
        return ("vfield", term, v, idx)

    def field(self, term, idx, name):
        if term[0] == "adt":
            for i, (n, x) in enumerate(term[3]):
                if (name is not None and n == name) or (name is None and i == idx):
                    return x
        if term[0] == "tuple":
            return term[1][idx]
        return ("field", term, name if name is not None else idx)

    # -- expressions ---------------------------------------------------------
    def ev(self, e, st, depth, body):
        """Generator of (guard, kind, term, env) with kind in val/ret/panic."""
        if e is None:
            yield (st.guard, "val", ("unit",), st.env)
            return
        k = e["k"]
        m = getattr(self, "ev_" + k, None)
        if m is None:
            raise Unsupported("expression kind %s%s" % (k, (" (" + e.get("kind", "") + ")") if k == "unsupported" else ""),
                              e.get("sp") or body["span"])
        yield from m(e, st, depth, body)

    def vals(self, e, st, depth, body, sink):
        """Evaluates e; yields (guard, term, env) for values, pushes ret/panic
        outcomes to sink."""
        for (g, kind, t, env) in self.ev(e, st, depth, body):
            if kind == "val":
                yield (g, t, env)
            else:
                sink.append((g, kind, t, env))

    def ev_block(self, e, st, depth, body):
        states = [State(st.guard, dict(st.env))]
        for s in e["stmts"]:
            nxt = []
            for cur in states:
                if s["k"] == "let":
                    if s["else"] is not None:
                        raise Unsupported("let-else", body["span"])
                    if s["init"] is None:
                        nxt.append(cur)
                        continue
                    for (g, kind, t, env) in self.ev(s["init"], cur, depth, body):
                        if kind == "val":
                            env2 = dict(env)
                            self.bind(s["pat"], t, env2, body)
                            nxt.append(State(g, env2))
                        else:
                            yield (g, kind, t, env)
                else:
                    for (g, kind, t, env) in self.ev(s["e"], cur, depth, body):
                        if kind == "val":
                            nxt.append(State(g, env))
                        else:
                            yield (g, kind, t, env)
            states = nxt
        for cur in states:
            if e["expr"] is None:
                yield (cur.guard, "val", ("unit",), cur.env)
            else:
                yield from self.ev(e["expr"], cur, depth, body)

    def is_debug_assert_guard(self, c):
        """`if cfg!(debug_assertions) { .. }` produced by debug_assert!/debug_assert_eq!/debug_assert_ne!"""
        while c["k"] == "block" and not c["stmts"] and c["expr"] is not None:
            c = c["expr"]
        return c["k"] == "lit" and any(str(m).startswith("debug_assert") for m in (c.get("expn_chain") or []))

    def ev_if(self, e, st, depth, body):
        c = e["cond"]
        if self.is_debug_assert_guard(c) and e["else"] is None:
            # Value-flow is decided for the semantics without debug assertions (they are compiled out in release
            # builds and, where they hold, change nothing in debug builds).  That a debug assertion cannot fire is
            # a totality question: its panic site is in C18's inventory and must be discharged there.
            self.debug_asserts_skipped = getattr(self, "debug_asserts_skipped", 0) + 1
            yield (st.guard, "val", ("unit",), st.env)
            return
        for (g, test, env_t) in self.cond(c, st, depth, body):
            # test: boolean term; env_t: env with if-let bindings (then branch)
            gt = gadd(g, test, True)
            if gt is not None:
                yield from self.ev(e["then"], State(gt, env_t), depth, body)
            gf = gadd(g, test, False)
            if gf is not None:
                if e["else"] is None:
                    yield (gf, "val", ("unit",), env_t)
                else:
                    yield from self.ev(e["else"], State(gf, env_t), depth, body)

    def cond(self, c, st, depth, body):
        """Yields (guard, boolean term, env) for a condition expression,
        supporting `if let`."""
        while c["k"] == "block" and not c["stmts"] and c["expr"] is not None:
            c = c["expr"]
        if c["k"] == "let":
            sink = []
            for (g, t, env) in self.vals(c["e"], st, depth, body, sink):
                env2 = dict(env)
                test = self.pat_test(c["pat"], t, env2, body)
                if test is True:
                    test = ("bool", True)
                yield (g, test, env2)
            if sink:
                raise Unsupported("diverging scrutinee in if-let", c.get("sp"))
            return
        sink = []
        for (g, t, env) in self.vals(c, st, depth, body, sink):
            yield (g, t, env)
        if sink:
            raise Unsupported("diverging condition", c.get("sp"))

    def ev_let(self, e, st, depth, body):
        raise Unsupported("let expression outside a condition", e.get("sp"))

    def for_parts(self, e):
        """(iterable expr, resolved into_iter path, item pattern, loop body) if `e` is the desugaring of a `for` loop."""
        sc = e["scrut"]
        if not (sc["k"] == "call" and sc.get("fn") and sc["fn"]["path"] == "core::iter::traits::collect::IntoIterator::into_iter"
                and len(e["arms"]) == 1 and e["arms"][0]["pat"]["k"] == "bind"):
            return None
        lp = e["arms"][0]["body"]
        while lp["k"] == "block" and not lp["stmts"] and lp["expr"] is not None:
            lp = lp["expr"]
        if lp["k"] != "loop":
            return None
        lb = lp["body"]
        inner = None
        if lb["k"] == "block" and len(lb["stmts"]) == 1 and lb["expr"] is None and lb["stmts"][0]["k"] == "expr":
            inner = lb["stmts"][0]["e"]
        elif lb["k"] == "block" and not lb["stmts"] and lb["expr"] is not None:
            inner = lb["expr"]
        if inner is None or inner["k"] != "match" or len(inner["arms"]) != 2:
            return None
        nx = inner["scrut"]
        if not (nx["k"] == "call" and nx.get("fn") and nx["fn"]["path"] == ITER_NEXT):
            return None
        some = [a for a in inner["arms"] if a["pat"]["k"] == "variant" and a["pat"].get("variant") == "Some"]
        if len(some) != 1 or not some[0]["pat"]["subs"]:
            return None
        r = sc["fn"].get("resolved") or {}
        return sc["args"][0], r.get("path", ""), some[0]["pat"]["subs"][0]["pat"], some[0]["body"]

    def ev_for(self, parts, st, depth, body, sp):
        """`for` loops of two idioms are rewritten into iterator terms (std contracts of
        find_map / filter / last); every other loop is unsupported (fail closed).
          search:     no outer variable is assigned, the body may `return v` under a condition
                      ==  match it.find_map(|item| cond.then(|| v)) { Some(v) => return v, None => () }
          keep-last:  one outer variable is assigned the same term f(item) under a condition, no return
                      ==  if let Some(x) = it.filter(|item| cond).last() { var = f(x) }"""
        it_e, into_path, pat, lbody = parts
        sink = []
        its = list(self.vals(it_e, st, depth, body, sink))
        if sink or len(its) != 1:
            raise Unsupported("control flow in the iterable of a for loop", sp)
        (g0, X, env0) = its[0]
        if into_path.startswith("core::array::<impl core::iter::traits::collect::IntoIterator for &") or \
                into_path.startswith("core::slice::<impl core::iter::traits::collect::IntoIterator for &"):
            I = ("app", "core::slice::<impl [T]>::iter", None, (X,))
        elif into_path.startswith("<I as core::iter::traits::collect::IntoIterator>") or "for I>::into_iter" in into_path:
            I = X
        else:
            raise Unsupported("for loop over %s" % (into_path or "an unresolved IntoIterator"), sp)
        base = 200 + 10 * depth + 100 * len([k for k in env0 if isinstance(k, tuple)])
        item = P(base, "item")
        envb = dict(env0)
        self.bind(pat, item, envb, body)
        outs = list(self.ev(lbody, State((), envb), depth, body))
        changed = set()
        for (g, kind, t, env2) in outs:
            if kind not in ("val", "ret"):
                raise Unsupported("panic / break inside a for loop", sp)
            for k, v in env0.items():
                if env2.get(k) != v:
                    changed.add(k)
        rets = [o for o in outs if o[1] == "ret"]
        if not changed:
            lam = ("lam", base, 1, tuple((g, "val", ("some", t) if kind == "ret" else ("none",)) for (g, kind, t, _e) in outs))
            fm = ("app", ITER + "find_map", None, (I, lam))
            some = ("isvar", fm, "Some")
            gs, gn = gadd(g0, some, True), gadd(g0, some, False)
            if gs is not None and rets:
                yield (gs, "ret", ("unwrap", fm), env0)
            if gn is not None:
                yield (gn, "val", ("unit",), env0)
            return
        if changed and not rets:
            # keep-last, possibly with several variables assigned together (the kept item and values derived from it):
            # in every case of the body either all of them are assigned — each the same term of the item — or none
            vars_ = sorted(changed, key=repr)
            hit = lambda env2: [env2.get(v) != env0[v] for v in vars_]
            together = all(all(hit(env2)) or not any(hit(env2)) for (g, kind, t, env2) in outs)
            new_vals = {v: {canon(env2[v]) for (g, kind, t, env2) in outs if env2.get(v) != env0[v]} for v in vars_}
            if together and all(len(x) == 1 for x in new_vals.values()):
                lam = ("lam", base, 1, tuple((g, "val", ("bool", all(hit(env2)))) for (g, kind, t, env2) in outs))
                last = ("app", ITER + "last", None, (("app", ITER + "filter", None, (I, lam)),))
                some = ("isvar", last, "Some")
                gs, gn = gadd(g0, some, True), gadd(g0, some, False)
                if gs is not None:
                    env1 = dict(env0)
                    for v in vars_:
                        env1[v] = subst(next(iter(new_vals[v])), {item: ("unwrap", last)})
                    yield (gs, "val", ("unit",), env1)
                if gn is not None:
                    yield (gn, "val", ("unit",), env0)
                return
        raise Unsupported("for loop outside the supported idioms (search with early return / keep the last match)", sp)

    def ev_match(self, e, st, depth, body):
        parts = self.for_parts(e)
        if parts is not None:
            yield from self.ev_for(parts, st, depth, body, e.get("sp"))
            return
        sink = []
        for (g, s, env) in self.vals(e["scrut"], st, depth, body, sink):
            prev = []  # tests of previous arms (all must be false)
            for arm in e["arms"]:
                env2 = dict(env)
                test = self.pat_test(arm["pat"], s, env2, body)
                ga = g
                for p in prev:
                    if ga is None:
                        break
                    ga = gadd(ga, p, False)
                if ga is None:
                    continue
                if test is True:
                    t = ("bool", True)
                else:
                    t = test
                if arm["guard"] is not None:
                    for (gg, tt, env3) in self.cond(arm["guard"], State(ga, env2), depth, body):
                        full = ("and", t, tt) if test is not True else tt
                        g3 = gadd(gg, full, True)
                        if g3 is not None:
                            yield from self.ev(arm["body"], State(g3, env3), depth, body)
                        prev.append(full)
                    continue
                g2 = gadd(ga, t, True)
                if g2 is not None:
                    yield from self.ev(arm["body"], State(g2, env2), depth, body)
                if test is True:
                    break
                prev.append(t)
        for x in sink:
            yield x

    def ev_return(self, e, st, depth, body):
        for (g, kind, t, env) in self.ev(e["e"], st, depth, body):
            yield (g, "ret" if kind == "val" else kind, t, env)

    def ev_var(self, e, st, depth, body):
        if e["id"] not in st.env:
            raise Unsupported("unbound variable " + e["name"], body["span"])
        yield (st.guard, "val", st.env[e["id"]], st.env)

    ev_upvar = ev_var

    def ev_ref(self, e, st, depth, body):
        yield from self.ev(e["e"], st, depth, body)

    ev_deref = ev_ref

    def ev_coerce(self, e, st, depth, body):
        yield from self.ev(e["e"], st, depth, body)

    def ev_lit(self, e, st, depth, body):
        if e["lit"]["t"] == "bool" and (e.get("expn") or "").startswith("Macro(Bang") and (e.get("expn") or "").rstrip('")').endswith("cfg"):
            # `cfg!(..)` (e.g. inside debug_assert!): the value depends on the
            # build profile, so it is an opaque condition, not a constant
            yield (st.guard, "val", ("app", "cfg!", None, (("str", e.get("sp") or ""),)), st.env)
            return
        if e["lit"]["t"] == "other":
            yield (st.guard, "val", ("opaque_lit", e["lit"]["v"]), st.env)
            return
        try:
            v = self.U.folder.fold(e)
        except F.Unfoldable as u:
            raise Unsupported("literal: " + u.what, e.get("sp"))
        yield (st.guard, "val", self.from_folded(v), st.env)

    def from_folded(self, v):
        if v[0] == "num":
            return ("num", v[1], v[2])
        if v[0] == "char":
            return ("str", v[1])     # a character constant: only ever compared or passed on
        if v[0] in ("str", "bool", "none", "bytes"):
            return v if v[0] != "none" else ("none",)
        if v[0] == "variant":
            return ("variant", v[1], v[2])
        if v[0] == "some":
            return ("some", self.from_folded(v[1]))
        if v[0] == "struct":
            return ("adt", v[1], "", tuple((n, self.from_folded(x)) for n, x in v[2].items()))
        if v[0] in ("tuple", "array"):
            return (v[0], tuple(self.from_folded(x) for x in v[1]))
        raise Unsupported("folded value " + v[0])

    def ev_scalar(self, e, st, depth, body):
        yield (st.guard, "val", ("num", Fraction(scalar_value(e)), e["ty"]["s"]), st.env)

    def ev_const(self, e, st, depth, body):
        p = e.get("resolved") or e["path"]
        tag = None
        if e.get("trait") and e["args"]:
            tag = ty_key(e["args"][0])
        try:
            v = self.U.folder.fold_const(p, e.get("sp"))
            yield (st.guard, "val", self.from_folded(v), st.env)
            return
        except (F.Unfoldable, Unsupported):
            pass
        name = p
        if e.get("trait") in QT:
            name = QT[e["trait"]] + "::" + e["name"]
        yield (st.guard, "val", ("const", name, tag if self.keep_tags else None), st.env)

    def ev_zst(self, e, st, depth, body):
        if "fn" in e:
            yield (st.guard, "val", ("fnref", e["fn"]["path"]), st.env)
        else:
            yield (st.guard, "val", ("unit",), st.env)

    def ev_cast(self, e, st, depth, body):
        for (g, kind, t, env) in self.ev(e["e"], st, depth, body):
            if kind != "val":
                yield (g, kind, t, env)
                continue
            to = e["to"]["s"]
            if t[0] == "num":
                if to == "f64":
                    t2 = ("num", Fraction(float(t[1])) if t[2] != "f64" else t[1], "f64")
                else:
                    t2 = ("num", t[1], to)
                yield (g, "val", t2, env)
            else:
                yield (g, "val", ("cast", t, to), env)

    def ev_un(self, e, st, depth, body):
        for (g, kind, t, env) in self.ev(e["e"], st, depth, body):
            if kind != "val":
                yield (g, kind, t, env)
            elif e["op"] == "Neg":
                if t[0] == "num":
                    yield (g, "val", ("num", -t[1], t[2]), env)
                else:
                    yield (g, "val", ("neg", t), env)
            elif e["op"] == "Not":
                yield (g, "val", ("not", t), env)
            else:
                raise Unsupported("unary " + e["op"], e.get("sp"))

    def product(self, exprs, st, depth, body, sink):
        """Evaluates a list of expressions left to right; yields
        (guard, [terms], env)."""
        def rec(i, g, env, acc):
            if i == len(exprs):
                yield (g, list(acc), env)
                return
            for (g2, t, env2) in self.vals(exprs[i], State(g, env), depth, body, sink):
                yield from rec(i + 1, g2, env2, acc + [t])
        yield from rec(0, st.guard, st.env, [])

    def ev_bin(self, e, st, depth, body):
        sink = []
        for (g, (a, b), env) in self.product([e["l"], e["r"]], st, depth, body, sink):
            yield (g, "val", self.binop(e["op"], a, b, e.get("sp")), env)
        yield from sink

    def binop(self, op, a, b, sp=None):
        if op in BINOPS:
            return (BINOPS[op], a, b)
        if op == "Eq":
            return ("==", a, b)
        if op == "Ne":
            return ("not", ("==", a, b))
        if op == "Lt":
            return ("<", a, b)
        if op == "Le":
            return ("<=", a, b)
        if op == "Gt":
            return ("<", b, a)
        if op == "Ge":
            return ("<=", b, a)
        raise Unsupported("binary operator " + op, sp)

    def ev_logic(self, e, st, depth, body):
        sink = []
        for (g, (a, b), env) in self.product([e["l"], e["r"]], st, depth, body, sink):
            # right operand evaluated unconditionally: sound only if it has no
            # effects/divergence — divergence would have landed in sink
            yield (g, "val", ("and" if e["op"] == "And" else "or", a, b), env)
        if sink:
            raise Unsupported("diverging operand of && / ||", e.get("sp"))

    def ev_index(self, e, st, depth, body):
        sink = []
        for (g, ts, env) in self.product([e["e"], e["i"]], st, depth, body, sink):
            base, idx = ts
            if base[0] == "array" and idx[0] == "num" and idx[1].denominator == 1 and 0 <= idx[1] < len(base[1]):
                yield (g, "val", base[1][int(idx[1])], env)
            else:
                yield (g, "val", ("index", base, idx), env)      # (bounds are C18's business; the model interpreter panics on a miss)
        yield from sink

    def ev_field(self, e, st, depth, body):
        for (g, kind, t, env) in self.ev(e["e"], st, depth, body):
            if kind != "val":
                yield (g, kind, t, env)
            else:
                yield (g, "val", self.field(t, e["idx"], e.get("name")), env)

    def ev_adt(self, e, st, depth, body):
        if e["has_base"]:
            # `S { f: x, ..base }`: the fields not written out are read from the base value
            if e.get("base") is None or not e.get("all_fields") or e["is_enum"]:
                raise Unsupported("struct update syntax", e.get("sp"))
            sink = []
            given = [f["name"] for f in e["fields"]]
            for (g, ts, env) in self.product([f["e"] for f in e["fields"]] + [e["base"]], st, depth, body, sink):
                basev = ts[-1]
                vals = dict(zip(given, ts[:-1]))
                t = ("adt", e["path"], "", tuple((n, vals[n] if n in vals else self.field(basev, i, n)) for i, n in enumerate(e["all_fields"])))
                yield (g, "val", t, env)
            yield from sink
            return
        sink = []
        for (g, ts, env) in self.product([f["e"] for f in e["fields"]], st, depth, body, sink):
            if e["path"] == "core::option::Option":
                t = ("some", ts[0]) if e["variant"] == "Some" else ("none",)
            elif e["is_enum"] and not e["fields"]:
                t = ("variant", e["path"], e["variant"])
            else:
                t = ("adt", e["path"], e["variant"] if e["is_enum"] else "",
                     tuple((f["name"], x) for f, x in zip(e["fields"], ts)))
            yield (g, "val", t, env)
        yield from sink

    def ev_tuple(self, e, st, depth, body):
        sink = []
        for (g, ts, env) in self.product(e["elems"], st, depth, body, sink):
            yield (g, "val", ("tuple", tuple(ts)) if ts else ("unit",), env)
        yield from sink

    def ev_array(self, e, st, depth, body):
        sink = []
        for (g, ts, env) in self.product(e["elems"], st, depth, body, sink):
            yield (g, "val", ("array", tuple(ts)), env)
        yield from sink

    def ev_closure(self, e, st, depth, body):
        caps = []
        for cap, up in zip(e["captures"], e["upvars"]):
            sink = []
            vs = list(self.vals(up, st, depth, body, sink))
            if len(vs) != 1 or sink:
                raise Unsupported("closure capture with control flow", e.get("sp"))
            caps.append((cap["var"], vs[0][1]))
        yield (st.guard, "val", ("closure", e["def"], tuple(caps)), st.env)

    # -- places ------------------------------------------------------------
    def place(self, l, sp=None):
        """(variable id, [(field name, index, struct path)...]) of a place expression rooted in a local variable;
        references are transparent, so `*self`, `self.amount` and `(*self).amount` are places of `self`."""
        path = []
        x = l
        while True:
            if x["k"] in ("deref", "ref", "coerce"):
                x = x["e"]
            elif x["k"] == "block" and not x["stmts"] and x["expr"] is not None:
                x = x["expr"]
            elif x["k"] == "field":
                path.append((x.get("name"), x.get("idx"), x.get("adt")))
                x = x["e"]
            else:
                break
        if x["k"] not in ("var", "upvar"):
            raise Unsupported("assignment to a place that is not rooted in a local variable", sp or l.get("sp"))
        return x["id"], list(reversed(path))

    def struct_fields(self, adt_path):
        for c in self.U.crates:
            a = c.adt_by_path.get(adt_path)
            if a is not None and not a.get("is_enum") and a.get("variants"):
                return [f["name"] for f in a["variants"][0]["fields"]]
        return None

    def set_path(self, cur, path, value, sp=None):
        if not path:
            return value
        (name, idx, adt) = path[0]
        if cur[0] != "adt":
            # a symbolic struct value: written out field by field
            names = self.struct_fields(adt) if adt else None
            if names is None or name is None:
                raise Unsupported("field assignment on a value of unknown layout", sp)
            cur = ("adt", adt, "", tuple((n, self.field(cur, i, n)) for i, n in enumerate(names)))
        fields = []
        hit = False
        for i, (n, x) in enumerate(cur[3]):
            if (name is not None and n == name) or (name is None and i == idx):
                fields.append((n, self.set_path(x, path[1:], value, sp)))
                hit = True
            else:
                fields.append((n, x))
        if not hit:
            raise Unsupported("field assignment: no such field", sp)
        return ("adt", cur[1], cur[2], tuple(fields))

    def write(self, env, l, value, sp=None):
        vid, path = self.place(l, sp)
        if vid not in env and path:
            raise Unsupported("assignment to a field of an unbound variable", sp)
        env2 = dict(env)
        env2[vid] = self.set_path(env.get(vid), path, value, sp)   # (a `let x;` declared earlier is bound here)
        return env2

    def ev_assign(self, e, st, depth, body):
        for (g, kind, t, env) in self.ev(e["r"], st, depth, body):
            if kind != "val":
                yield (g, kind, t, env)
            else:
                yield (g, "val", ("unit",), self.write(env, e["l"], t, e.get("sp")))

    def ev_assign_op(self, e, st, depth, body):
        """built-in compound assignment (primitive amounts): place = place op value"""
        op = {"AddAssign": "+", "SubAssign": "-", "MulAssign": "*", "DivAssign": "/", "RemAssign": "%",
              "Add": "+", "Sub": "-", "Mul": "*", "Div": "/", "Rem": "%"}.get(e["op"])
        if op is None:
            raise Unsupported("compound assignment " + e["op"], e.get("sp"))
        sink = []
        for (g, ts, env) in self.product([e["l"], e["r"]], st, depth, body, sink):
            yield (g, "val", ("unit",), self.write(env, e["l"], (op, ts[0], ts[1]), e.get("sp")))
        yield from sink

    # -- calls -----------------------------------------------------------
    def ev_call(self, e, st, depth, body):
        f = e.get("fn")
        if f is None:
            raise Unsupported("indirect call", e.get("sp"))
        # &mut arguments
        mut_places = []
        for i, a in enumerate(e["args"]):
            x = a
            while x["k"] in ("coerce",) or (x["k"] == "block" and not x["stmts"] and x["expr"]):
                x = x["e"] if x["k"] == "coerce" else x["expr"]
            if x["k"] == "ref" and x.get("mut"):
                tgt = x["e"]
                while tgt["k"] in ("deref", "field", "ref"):      # (`&mut *(&mut v)` is the reborrow rustc inserts)
                    tgt = tgt["e"]
                if tgt["k"] in ("var", "upvar"):
                    # a named place stays observable after the call
                    mut_places.append((i, tgt))
                    self.mut_exprs[(id(e), i)] = x["e"]
        sink = []
        for (g, args, env) in self.product(e["args"], st, depth, body, sink):
            yield from self.apply(f, args, g, env, depth, body, e, mut_places)
        yield from sink

    def fname(self, f):
        if f.get("trait") in QT:
            return QT[f["trait"]] + "::" + f["name"]
        return f["path"]

    # -- generic arguments of inlined callees -----------------------------------
    def rty(self, t):
        """An exported type with the generic parameters of the body being inlined replaced by the call site's
        arguments (`Self`, `Rhs`, `Res` of a shared helper become the operator's concrete types)."""
        frame = self.tysubst[-1] if self.tysubst else None
        if not frame or not isinstance(t, dict):
            return t
        k = t.get("k")
        if k == "param":
            return frame.get(t.get("name"), t)
        if k == "ref":
            inner = self.rty(t["ty"])
            if inner is t["ty"]:
                return t
            r = dict(t)
            r["ty"] = inner
            r["s"] = "&" + ("mut " if t.get("mut") else "") + inner.get("s", "?")
            return r
        if k == "adt" and t.get("args"):
            args = [self.rty(a) for a in t["args"]]
            if all(a is b for a, b in zip(args, t["args"])):
                return t
            r = dict(t)
            r["args"] = args
            return r
        if k == "alias" and t.get("args"):
            args = [self.rty(a) for a in t["args"]]
            if all(a is b for a, b in zip(args, t["args"])):
                return t
            if t.get("path") == "quantities::Quantity::UnitType" and args[0].get("k") != "param":
                ut = self.unit_type_of(ty_key(args[0]))
                if ut is not None:
                    return ut
            r = dict(t)
            r["args"] = args
            tr, _, nm = t["path"].rpartition("::")
            r["s"] = "<%s as %s>::%s" % (args[0].get("s", ty_key(args[0])), tr, nm)
            return r
        return t

    def unit_type_of(self, qpath):
        m = getattr(self.U, "_unit_type_of", None)
        if m is None:
            m = {}
            for imp in self.U.all_impls("quantities::Quantity"):
                it = self.U.impl_item(imp, "UnitType")
                if it is not None:
                    m[ty_key(imp["self_ty"])] = it.get("ty_norm") or it.get("ty")
            self.U._unit_type_of = m
        return m.get(qpath)

    def tag(self, f):
        if not self.keep_tags:
            return None
        if f.get("trait") in QT and f["args"]:
            return ty_key(f["args"][0])
        return None

    def apply(self, f, args, g, env, depth, body, e, mut_places):
        sp = e.get("sp")
        path = f["path"]
        tr = f.get("trait")
        name = f["name"]
        if self.tysubst and self.tysubst[-1] and f.get("args"):
            a2 = [self.rty(a) for a in f["args"]]
            if any(x is not y for x, y in zip(a2, f["args"])):
                f = dict(f)
                f["args"] = a2
        self.calls_seen.append(f)
        self_ty = ty_key(f["args"][0]) if f.get("args") else None
        val = None
        # --- diverging panics ---------------------------------------------
        if path in ("core::panicking::panic_fmt", "core::panicking::panic", "core::panicking::panic_display",
                    "core::panicking::unreachable_display", "core::panicking::panic_explicit",
                    "std::rt::begin_panic", "core::panicking::assert_failed"):
            yield (g, "panic", ("panic", path), env)
            return
        # --- amount arithmetic ----------------------------------------------
        if tr in ARITH and self_ty is not None and strip_ref(self_ty) in AMOUNT and len(args) == 2:
            rhs_ty = strip_ref(ty_key(f["args"][1])) if len(f["args"]) > 1 else strip_ref(self_ty)
            if rhs_ty in AMOUNT:
                val = (ARITH[tr], args[0], args[1])
        if val is None and tr == "core::ops::arith::Neg" and self_ty is not None and strip_ref(self_ty) in AMOUNT:
            val = ("neg", args[0])
        if val is None and path == "fpdec::Decimal::new_raw" and len(args) == 2 and args[0][0] == "num" and args[1][0] == "num" \
                and args[1][1].denominator == 1 and 0 <= args[1][1] <= 18:
            # the expansion of a `Dec!` literal: a decimal constant
            val = ("num", Fraction(args[0][1]) / 10 ** int(args[1][1]), "fpdec::Decimal")
        if val is None and path == "fpdec::unops::<impl fpdec::Decimal>::abs":
            val = ("abs", args[0])
        if val is None and path in ("core::f64::<impl f64>::abs", "std::f64::<impl f64>::abs"):
            val = ("abs", args[0])
        # --- comparisons ------------------------------------------------------
        if val is None and tr == "core::cmp::PartialEq" and len(args) == 2:
            if name == "eq":
                val = ("==", args[0], args[1])
            elif name == "ne":
                val = ("not", ("==", args[0], args[1]))
        if val is None and tr == "core::cmp::PartialOrd" and len(args) == 2:
            val = {"lt": ("<", args[0], args[1]), "le": ("<=", args[0], args[1]),
                   "gt": ("<", args[1], args[0]), "ge": ("<=", args[1], args[0]),
                   "partial_cmp": ("pcmp", args[0], args[1])}.get(name)
        # --- Option / bool helpers ----------------------------------------------
        if val is None and path == "core::option::Option::<T>::is_none":
            val = ("not", self.isvar(args[0], "core::option::Option", "Some"))
        if val is None and path == "core::option::Option::<T>::is_some":
            val = self.isvar(args[0], "core::option::Option", "Some")
        if val is None and path in ("core::option::Option::<T>::unwrap", "core::option::Option::<T>::expect"):
            val = self.vfield(args[0], "core::option::Option", "Some", 0)
        if val is None and path == "alloc::string::String::is_empty":
            val = ("==", args[0], ("str", ""))
        if val is None and path == "core::str::<impl str>::is_empty":
            val = ("==", args[0], ("str", ""))
        # --- Option / bool combinators with a case split (std contracts) ----------
        OPT = "core::option::Option::<T>::"
        if val is None and not mut_places and path.startswith(OPT) and name in (
                "unwrap_or", "unwrap_or_else", "map", "and_then", "filter", "or", "or_else", "map_or", "is_some_and", "copied", "cloned", "unwrap_or_default_unsupported"):
            o = args[0]
            some = self.isvar(o, "core::option::Option", "Some")
            inner = self.vfield(o, "core::option::Option", "Some", 0)

            def clo(c, xs, gg):
                if c[0] != "closure":
                    raise Unsupported("non-closure argument to Option::" + name, sp)
                for (g3, k3, t3) in self.summarize_closure(c, xs, depth + 1, gg):
                    yield (g3, k3, t3)
            if name in ("copied", "cloned"):
                yield (g, "val", o, env)
                return
            gs, gn = gadd(g, some, True), gadd(g, some, False)
            if gs is not None:
                if name in ("unwrap_or", "unwrap_or_else"):
                    yield (gs, "val", inner, env)
                elif name == "map":
                    for (g3, k3, t3) in clo(args[1], [inner], gs):
                        yield (g3, k3, ("some", t3) if k3 == "val" else t3, env)
                elif name == "map_or":
                    for (g3, k3, t3) in clo(args[2], [inner], gs):
                        yield (g3, k3, t3, env)
                elif name in ("and_then", "is_some_and"):
                    for (g3, k3, t3) in clo(args[1], [inner], gs):
                        yield (g3, k3, t3, env)
                elif name == "filter":
                    for (g3, k3, t3) in clo(args[1], [inner], gs):
                        if k3 != "val":
                            yield (g3, k3, t3, env)
                            continue
                        g4 = gadd(g3, t3, True)
                        if g4 is not None:
                            yield (g4, "val", ("some", inner), env)
                        g5 = gadd(g3, t3, False)
                        if g5 is not None:
                            yield (g5, "val", ("none",), env)
                elif name in ("or", "or_else"):
                    yield (gs, "val", ("some", inner), env)
            if gn is not None:
                if name == "unwrap_or":
                    yield (gn, "val", args[1], env)
                elif name in ("unwrap_or_else", "or_else"):
                    for (g3, k3, t3) in clo(args[1], [], gn):
                        yield (g3, k3, t3, env)
                elif name in ("map", "and_then", "filter"):
                    yield (gn, "val", ("none",), env)
                elif name == "map_or":
                    yield (gn, "val", args[1], env)
                elif name == "is_some_and":
                    yield (gn, "val", ("bool", False), env)
                elif name == "or":
                    yield (gn, "val", args[1], env)
            return
        if val is None and not mut_places and path in ("core::bool::<impl bool>::then_some", "core::bool::<impl bool>::then"):
            gt, gf = gadd(g, args[0], True), gadd(g, args[0], False)
            if gt is not None:
                if name == "then_some":
                    yield (gt, "val", ("some", args[1]), env)
                else:
                    if args[1][0] != "closure":
                        raise Unsupported("non-closure argument to bool::then", sp)
                    for (g3, k3, t3) in self.summarize_closure(args[1], [], depth + 1, gt):
                        yield (g3, k3, ("some", t3) if k3 == "val" else t3, env)
            if gf is not None:
                # then_some evaluates its argument eagerly: arithmetic in it happens (and may panic in the
                # decimal back-end) although the value is discarded
                if name == "then_some" and has_arith(args[1]):
                    yield (gf, "val", ("discard", args[1], ("none",)), env)
                else:
                    yield (gf, "val", ("none",), env)
            return
        if val is None and path in ("core::hint::must_use", "core::option::Option::<&T>::copied", "core::option::Option::<&T>::cloned",
                                    "core::option::Option::<&mut T>::copied", "core::option::Option::<&mut T>::cloned"):
            val = args[0]
        # --- the `?` operator on Option (std contract of Try / FromResidual for Option) ----------------------
        CF = "core::ops::control_flow::ControlFlow"
        if val is None and tr == "core::ops::try_trait::Try" and name == "branch" and len(args) == 1 and self_ty is not None \
                and strip_ref(self_ty).startswith("core::option::Option"):
            o = args[0]
            if o[0] == "some":
                yield (g, "val", ("adt", CF, "Continue", (("0", o[1]),)), env)
                return
            if o[0] == "none":
                yield (g, "val", ("adt", CF, "Break", (("0", ("none",)),)), env)
                return
            some = ("isvar", o, "Some")
            gs, gn = gadd(g, some, True), gadd(g, some, False)
            if gs is not None:
                yield (gs, "val", ("adt", CF, "Continue", (("0", ("unwrap", o)),)), env)
            if gn is not None:
                yield (gn, "val", ("adt", CF, "Break", (("0", ("none",)),)), env)
            return
        if val is None and tr == "core::ops::try_trait::FromResidual" and name == "from_residual" and len(args) == 1 and args[0] == ("none",) \
                and self_ty is not None and strip_ref(self_ty).startswith("core::option::Option"):
            val = ("none",)
        if val is None and tr in ("core::clone::Clone",) and name == "clone":
            val = args[0]
        if val is None and tr == "core::ops::deref::Deref" and name == "deref":
            val = args[0]
        if val is None and tr == "alloc::borrow::ToOwned" and name == "to_owned" and args[0][0] == "str":
            val = args[0]
        if val is not None:
            if mut_places:
                raise Unsupported("&mut argument to " + path, sp)
            yield (g, "val", val, env)
            return
        # --- iterator state update ------------------------------------------------
        if tr == "core::iter::traits::iterator::Iterator" and name == "next" and len(args) == 1:
            if len(mut_places) == 1 and mut_places[0][1]["k"] == "var":
                vid = mut_places[0][1]["id"]
                env2 = dict(env)
                env2[vid] = ("app", "iter_rest", None, (args[0],))
                yield (g, "val", ("app", "iter_next", None, (args[0],)), env2)
                return
            if not mut_places:
                # a temporary: nothing observes the advanced iterator afterwards
                yield (g, "val", ("app", "iter_next", None, (args[0],)), env)
                return
            raise Unsupported("Iterator::next on a non-variable place", sp)
        write_back = None
        if mut_places:
            # the Formatter is an opaque effect token
            ok = all(self.is_formatter(e["args"][i], body) for i, _ in mut_places)
            if not ok:
                # `place op= value` on amounts (Decimal: a library call; f64: built in, see ev_assign_op)
                if (len(mut_places) == 1 and mut_places[0][0] == 0 and tr in ASSIGN_ARITH and len(args) == 2 and self_ty is not None
                        and strip_ref(self_ty) in AMOUNT and (len(f["args"]) < 2 or strip_ref(ty_key(f["args"][1])) in AMOUNT)):
                    lexpr = self.mut_exprs.get((id(e), 0))
                    if lexpr is not None:
                        yield (g, "val", ("unit",), self.write(env, lexpr, (ASSIGN_ARITH[tr], args[0], args[1]), sp))
                        return
                # a method of the analysed crates taking `&mut`: entered below, the final value of its parameter
                # is written back to the borrowed place; anything else fails closed
                r0 = f.get("resolved") or {}
                tgt = r0.get("path") if r0.get("path") in self.U.body else (path if path in self.U.body and not path.startswith("core::") else None)
                if len(mut_places) == 1 and tgt is not None and depth < self.max_depth:
                    write_back = (mut_places[0][0], tgt)
                else:
                    raise Unsupported("&mut argument passed to " + path, sp)
        if write_back is not None:
            i, tgt = write_back
            callee = self.U.body[tgt]
            pj = callee["params"][i].get("pat") if i < len(callee["params"]) else None
            lexpr = self.mut_exprs.get((id(e), i))
            if pj is None or pj.get("k") != "bind" or lexpr is None or len(callee["params"]) != len(args):
                raise Unsupported("&mut argument passed to " + path, sp)
            cenv = {}
            for pp, a in zip(callee["params"], args):
                if "pat" in pp:
                    self.bind(pp["pat"], a, cenv, callee)
            # (the callee is evaluated to the end before anything is handed on: the consumer of this generator goes
            # on evaluating the caller's body between two outcomes, which must not see the callee's frame)
            self.tysubst.append({})
            try:
                res = list(self.ev(callee["value"], State(g, cenv), depth + 1, callee))
            finally:
                self.tysubst.pop()
            for (g2, kind, t, e2) in res:
                if kind in ("val", "ret"):
                    yield (g2, "val", t, self.write(env, lexpr, e2[pj["id"]], sp))
                else:
                    yield (g2, kind, t, env)
            return
        # --- inlining ------------------------------------------------------------------
        target = None
        r = f.get("resolved")
        if tr in QT:
            short = QT[tr] + "::" + name
            if f.get("has_default") and (short in self.inline or ("*" in self.inline and short not in self.stop)):
                if short in self.overrides and self.overrides[short] in self.U.body:
                    target = self.overrides[short]   # analysed for one concrete type that overrides this default
                elif r is not None and r["path"] != path:
                    target = r["path"]       # an overriding impl: analyse the override
                else:
                    target = path
            elif not f.get("has_default") and r is not None and (short + "!") in self.inline:
                target = r["path"]           # concrete impl method requested
        elif tr is None and f.get("local", False) or (tr is None and path in self.U.body):
            if path in self.U.body and not path.startswith("core::"):
                target = path
        elif tr is not None and r is not None and r["path"] in self.U.body and (r["path"] + "!") in self.inline:
            target = r["path"]
        pushed = False
        if target is None and tr is not None and tr not in QT and tr in getattr(self.U, "trait_items", {}) and not tr.startswith(("core::", "alloc::", "std::")):
            # a private helper trait of the analysed crates (not one of the library's own four traits, whose methods
            # the rules keep symbolic): look through it.  A default method is entered with the receiver's concrete
            # type remembered, so that the required methods it calls on `Self` resolve through the impl table.
            ctxs = getattr(self, "self_ctx", [])
            if r is not None and r["path"] in self.U.body:
                target = r["path"]
                if f.get("args"):
                    self.self_ctx = ctxs + [(tr, ty_key(f["args"][0]))]
                    pushed = True
            elif ctxs and ctxs[-1][0] == tr:
                for imp in self.U.all_impls(tr):
                    if ty_key(imp["self_ty"]) == ctxs[-1][1]:
                        it = self.U.impl_item(imp, name)
                        if it is not None and it["path"] in self.U.body:
                            target = it["path"]
        if target is not None and target in self.U.body and depth < self.max_depth:
            callee = self.U.body[target]
            gen = callee.get("generics")
            frame = {}
            if gen and f.get("args") and len(gen) == len(f["args"]) and target == path:
                # the generic body itself (not a concrete impl's): its parameters stand for the call site's arguments
                frame = {n: a for n, a in zip(gen, f["args"]) if a.get("k") != "param" or a.get("name") != n}
            self.tysubst.append(frame)
            try:
                res = self.summarize(callee, args, depth + 1, g)     # a list: evaluated to the end under this frame
            finally:
                self.tysubst.pop()
                if pushed:
                    self.self_ctx = self.self_ctx[:-1]
            for (g2, kind, t) in res:
                yield (g2, kind, t, env)
            return
        if pushed:
            self.self_ctx = self.self_ctx[:-1]
        yield (g, "val", ("app", self.fname(f), self.tag(f), tuple(args)), env)

    def is_formatter(self, a, body):
        """The argument is a parameter whose declared type is
        &mut core::fmt::Formatter (the opaque effect token)."""
        x = a
        while x["k"] in ("ref", "deref", "coerce"):
            x = x["e"]
        if x["k"] != "var":
            return False
        for p in body["params"]:
            pat = p.get("pat")
            if pat and pat.get("k") == "bind" and pat["id"] == x["id"]:
                return "core::fmt::Formatter" in p["ty"]["s"]
        return False


# ------------------------------------------------------------ truth tables
def bool_atoms(t, acc):
    t = canon(t)
    if t[0] in ("and", "or"):
        bool_atoms(t[1], acc)
        bool_atoms(t[2], acc)
    elif t[0] == "not":
        bool_atoms(t[1], acc)
    elif t[0] == "bool":
        pass
    else:
        if t not in acc:
            acc.append(t)
    return acc


def bool_eval(t, asg):
    t = canon(t)
    if t[0] == "and":
        return bool_eval(t[1], asg) and bool_eval(t[2], asg)
    if t[0] == "or":
        return bool_eval(t[1], asg) or bool_eval(t[2], asg)
    if t[0] == "not":
        return not bool_eval(t[1], asg)
    if t[0] == "bool":
        return t[1]
    return asg[t]


def guard_atoms(outs, extra=()):
    acc = []
    for a in extra:
        bool_atoms(a, acc)
    for (g, _k, _t) in outs:
        for (a, _p) in g:
            bool_atoms(a, acc)
    return acc


def select(outs, asg):
    """Outcomes whose guard holds under the assignment."""
    res = []
    for (g, k, t) in outs:
        if all(bool_eval(a, asg) == p for a, p in g):
            res.append((k, t))
    return res


def assignments(atoms):
    n = len(atoms)
    if n > 10:
        raise Unsupported("too many guard atoms (%d)" % n)
    for bits in range(1 << n):
        yield {a: bool((bits >> i) & 1) for i, a in enumerate(atoms)}
