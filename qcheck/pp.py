"""Compact printer for exported THIR trees (debugging / report texts)."""


def fnname(f):
    r = f.get("resolved")
    base = f["path"]
    if f.get("trait"):
        a = f.get("args") or []
        self_ty = a[0]["s"] if a else "?"
        base = "<%s as %s>::%s" % (self_ty, f["trait"], f["name"])
    return base


def pp(e):
    if e is None:
        return "()"
    k = e.get("k")
    if k == "block":
        parts = []
        for s in e["stmts"]:
            if s["k"] == "let":
                parts.append("let %s = %s" % (ppat(s["pat"]), pp(s["init"])))
            else:
                parts.append(pp(s["e"]))
        if e["expr"] is not None:
            parts.append(pp(e["expr"]))
        if len(parts) == 1:
            return parts[0]
        return "{ " + "; ".join(parts) + " }"
    if k == "call":
        f = e.get("fn")
        n = fnname(f) if f else "(" + pp(e["fn_expr"]) + ")"
        return "%s(%s)" % (n, ", ".join(pp(a) for a in e["args"]))
    if k == "bin":
        return "(%s %s %s)" % (pp(e["l"]), e["op"], pp(e["r"]))
    if k == "logic":
        return "(%s %s %s)" % (pp(e["l"]), e["op"], pp(e["r"]))
    if k == "un":
        return "%s(%s)" % (e["op"], pp(e["e"]))
    if k == "if":
        return "if %s { %s } else { %s }" % (pp(e["cond"]), pp(e["then"]), pp(e["else"]))
    if k == "match":
        return "match %s { %s }" % (pp(e["scrut"]), ", ".join(
            "%s%s => %s" % (ppat(a["pat"]), (" if " + pp(a["guard"])) if a["guard"] else "", pp(a["body"])) for a in e["arms"]))
    if k in ("var", "upvar"):
        return "%s#%d" % (e["name"], e["id"])
    if k == "ref":
        return "&" + pp(e["e"])
    if k == "deref":
        return "*" + pp(e["e"])
    if k == "field":
        return "%s.%s" % (pp(e["e"]), e.get("name", e["idx"]))
    if k == "lit":
        return ("-" if e["neg"] else "") + repr(e["lit"]["v"]) + ":" + e["ty"]["s"]
    if k == "cast":
        return "(%s as %s)" % (pp(e["e"]), e["to"]["s"])
    if k == "coerce":
        return "coerce[%s](%s)" % (e["cast"], pp(e["e"]))
    if k == "adt":
        if e["is_enum"]:
            head = "%s::%s" % (e["path"], e["variant"])
        else:
            head = e["path"]
        if not e["fields"]:
            return head
        return head + "{" + ", ".join("%s: %s" % (f["name"], pp(f["e"])) for f in e["fields"]) + "}"
    if k == "const":
        return "const " + e["path"] + (("<" + ",".join(a["s"] for a in e["args"]) + ">") if e["args"] else "")
    if k == "zst":
        if "fn" in e:
            return "fn " + fnname(e["fn"])
        return "zst:" + e["ty"]["s"]
    if k == "return":
        return "return " + pp(e["e"])
    if k in ("array", "tuple"):
        return ("[%s]" if k == "array" else "(%s)") % ", ".join(pp(x) for x in e["elems"])
    if k == "closure":
        return "closure %s[%s]" % (e["def"], ", ".join(pp(u) for u in e["upvars"]))
    if k == "let":
        return "let %s = %s" % (ppat(e["pat"]), pp(e["e"]))
    if k == "scalar":
        return "scalar(%s:%s)" % (e["bits"], e["ty"]["s"])
    if k == "assign":
        return "%s = %s" % (pp(e["l"]), pp(e["r"]))
    if k == "loop":
        return "loop { %s }" % pp(e["body"])
    if k == "unsupported":
        return "<unsupported %s>" % e["kind"]
    return "<%s>" % k


def ppat(p):
    k = p["k"]
    if k == "bind":
        s = "%s#%d" % (p["name"], p["id"])
        if "sub" in p:
            s += " @ " + ppat(p["sub"])
        return s
    if k == "wild":
        return "_"
    if k == "variant":
        s = "%s::%s" % (p["path"], p["variant"])
        if p["subs"]:
            s += "(" + ", ".join(ppat(x["pat"]) for x in p["subs"]) + ")"
        return s
    if k == "leaf":
        return "(" + ", ".join(ppat(x["pat"]) for x in p["subs"]) + ")"
    if k == "deref":
        return "&" + ppat(p["sub"])
    if k == "const":
        return p.get("str", p.get("dbg")) if "str" not in p else repr(p["str"])
    if k == "or":
        return " | ".join(ppat(x) for x in p["pats"])
    return "<pat %s>" % k
