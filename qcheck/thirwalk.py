"""Generic walkers over exported THIR JSON."""


def walk(e, f):
    """Calls f(node) for every expression node."""
    if isinstance(e, dict):
        if "k" in e:
            f(e)
        for v in e.values():
            walk(v, f)
    elif isinstance(e, list):
        for v in e:
            walk(v, f)


def calls(e, pred=None):
    out = []

    def f(n):
        if n.get("k") == "call" and "fn" in n and (pred is None or pred(n["fn"])):
            out.append(n)
    walk(e, f)
    return out
