"""Constant evaluation of integer / table code at constant arguments.

`fold.py` folds constant *expressions*; this module folds a whole function
body at given constant arguments, the way the compiler's own const evaluator
does for a `const fn`: local variables, assignments, `if` / `match`, loops with
`break` / `continue` / `return`, integer arithmetic with the type's overflow
rules, array indexing with bounds.  It exists for lookup functions over a
finite domain (all 256 values of an `i8`) that are written as a loop over a
constant table (e.g. a binary search) and therefore have no closed term the
gated value-flow summary could produce.

Values are those of fold.py.  Anything outside the supported fragment raises
CannotFold (=> unsupported construct, fail closed); a run-time panic (overflow,
index out of bounds, explicit panic) raises FoldPanic; a loop that does not end
within FUEL steps raises CannotFold.
"""
from fractions import Fraction

from . import fold
from .fold import INT_RANGES, Unfoldable

FUEL = 20000


class CannotFold(Exception):
    def __init__(self, what, sp=None):
        super().__init__(what)
        self.what = what
        self.sp = sp


class FoldPanic(Exception):
    pass


class _Return(Exception):
    def __init__(self, v):
        self.v = v


class _Break(Exception):
    def __init__(self, v):
        self.v = v


class _Continue(Exception):
    pass


UNIT = ("tuple", [])


def num(v, ty):
    return ("num", Fraction(v), ty, str(v))


class Ctfe:
    def __init__(self, U, discr=None):
        self.U = U
        self.folder = U.folder
        self.discr = discr or (lambda path, variant: None)
        self.fuel = FUEL
        self.depth = 0

    # -- entry -------------------------------------------------------------------------------
    def call_body(self, body, args):
        params = body.get("params", [])
        if len(params) != len(args):
            raise CannotFold("arity mismatch", body.get("span"))
        env = {}
        for p, a in zip(params, args):
            if not self.bind(p.get("pat"), a, env):
                raise CannotFold("parameter pattern", body.get("span"))
        self.depth += 1
        if self.depth > 16:
            raise CannotFold("recursion depth", body.get("span"))
        try:
            return self.ev(body["value"], env)
        except _Return as r:
            return r.v
        finally:
            self.depth -= 1

    # -- patterns ----------------------------------------------------------------------------
    def bind(self, p, v, env):
        """match value against pattern, extending env; False if it does not match"""
        if p is None:
            raise CannotFold("missing pattern")
        k = p["k"]
        if k == "wild":
            return True
        if k == "bind":
            if p.get("sub") is not None and not self.bind(p["sub"], v, env):
                return False
            env[p["id"]] = v
            return True
        if k == "deref":
            return self.bind(p["sub"], v, env)
        if k == "or":
            return any(self.bind(q, v, env) for q in p["pats"])
        if k == "const":
            if "bits" in p and v[0] == "num" and p["ty"]["s"] in INT_RANGES:
                bits = int(p["bits"])
                lo, _hi = INT_RANGES[p["ty"]["s"]]
                if lo < 0 and bits >= 1 << (8 * p["size"] - 1):
                    bits -= 1 << (8 * p["size"])
                return v[1] == bits
            if "bits" in p and v[0] == "bool":
                return v[1] == bool(int(p["bits"]))
            if "str" in p and v[0] == "str":
                return v[1] == p["str"]
            raise CannotFold("constant pattern of type " + p["ty"]["s"])
        if k == "variant":
            if p["path"] == "core::option::Option":
                if p["variant"] == "None":
                    return v == ("none",)
                if v[0] != "some":
                    if v == ("none",):
                        return False
                    raise CannotFold("Option pattern on " + v[0])
                return all(self.bind(s["pat"], v[1], env) for s in p["subs"])
            if v[0] == "variant":
                if p["subs"]:
                    raise CannotFold("variant pattern with fields")
                return v[1] == p["path"] and v[2] == p["variant"]
            raise CannotFold("variant pattern on " + v[0])
        if k == "leaf":
            if v[0] == "tuple":
                return all(self.bind(s["pat"], v[1][s["idx"]], env) for s in p["subs"])
            raise CannotFold("struct pattern")
        raise CannotFold("pattern kind " + str(p.get("kind") or k))

    # -- integers ----------------------------------------------------------------------------
    def arith(self, op, a, b, ty, sp):
        if ty not in INT_RANGES:
            raise CannotFold("arithmetic in type " + ty, sp)
        x, y = int(a[1]), int(b[1])
        lo, hi = INT_RANGES[ty]
        if op == "Add":
            r = x + y
        elif op == "Sub":
            r = x - y
        elif op == "Mul":
            r = x * y
        elif op in ("Div", "Rem"):
            if y == 0:
                raise FoldPanic("division by zero")
            q = abs(x) // abs(y)
            if (x < 0) != (y < 0):
                q = -q
            r = q if op == "Div" else x - q * y
        elif op == "BitAnd":
            r = x & y
        elif op == "BitOr":
            r = x | y
        elif op == "BitXor":
            r = x ^ y
        elif op in ("Shl", "Shr"):
            bits = (hi - lo + 1).bit_length() - 1
            if not 0 <= y < bits:
                raise FoldPanic("shift amount out of range")
            if op == "Shr":
                r = x >> y
            else:
                r = (x << y) & ((1 << bits) - 1)
                if lo < 0 and r > hi:
                    r -= 1 << bits
        else:
            raise CannotFold("operator " + op, sp)
        if not lo <= r <= hi:
            raise FoldPanic("arithmetic overflow in %s (%d %s %d)" % (ty, x, op, y))
        return num(r, ty)

    CMP = {"Eq": lambda a, b: a == b, "Ne": lambda a, b: a != b, "Lt": lambda a, b: a < b,
           "Le": lambda a, b: a <= b, "Gt": lambda a, b: a > b, "Ge": lambda a, b: a >= b}

    def key(self, v, sp):
        if v[0] in ("num",):
            return v[1]
        if v[0] in ("bool", "str", "char"):
            return v[1]
        if v[0] == "variant":
            d = self.discr(v[1], v[2])
            if d is None:
                raise CannotFold("comparison of variants without known discriminants", sp)
            return d
        raise CannotFold("comparison of " + v[0], sp)

    # -- places ------------------------------------------------------------------------------
    def assign(self, lhs, v, env):
        t = lhs
        while t["k"] in ("deref",):
            t = t["e"]
        if t["k"] == "var" and t["id"] in env:
            env[t["id"]] = v
            return
        raise CannotFold("assignment to a place other than a local variable", lhs.get("sp"))

    # -- expressions -------------------------------------------------------------------------
    def ev(self, e, env):
        self.fuel -= 1
        if self.fuel <= 0:
            raise CannotFold("evaluation does not finish within %d steps" % FUEL, e.get("sp"))
        if e is None:
            return UNIT
        k = e["k"]
        sp = e.get("sp")
        if k == "block":
            for s in e["stmts"]:
                if s["k"] == "expr":
                    self.ev(s["e"], env)
                else:
                    if s["init"] is None:
                        v = ("uninit",)
                    else:
                        v = self.ev(s["init"], env)
                    if not self.bind(s["pat"], v, env):
                        if s.get("else") is None:
                            raise CannotFold("refutable let", sp)
                        self.ev(s["else"], env)
                        raise CannotFold("let-else block falls through", sp)
            return self.ev(e["expr"], env) if e["expr"] is not None else UNIT
        if k in ("var", "upvar"):
            if e["id"] in env:
                v = env[e["id"]]
                if v == ("uninit",):
                    raise CannotFold("use of an uninitialised variable", sp)
                return v
            raise CannotFold("variable " + e["name"], sp)
        if k in ("ref", "deref", "coerce"):
            return self.ev(e["e"], env)
        if k == "if":
            c = self.ev(e["cond"], env)
            if c[0] != "bool":
                raise CannotFold("condition is not a boolean", sp)
            if c[1]:
                return self.ev(e["then"], env)
            return self.ev(e["else"], env) if e["else"] is not None else UNIT
        if k == "let":
            return ("bool", self.bind(e["pat"], self.ev(e["e"], env), env))
        if k == "logic":
            a = self.ev(e["l"], env)
            if a[0] != "bool":
                raise CannotFold("operand is not a boolean", sp)
            if (e["op"] == "And") != a[1]:
                return a
            return self.ev(e["r"], env)
        if k == "un":
            v = self.ev(e["e"], env)
            if e["op"] == "Not" and v[0] == "bool":
                return ("bool", not v[1])
            if e["op"] == "Neg" and v[0] == "num" and v[2] in INT_RANGES:
                return self.arith("Sub", num(0, v[2]), v, v[2], sp)
            raise CannotFold("unary %s on %s" % (e["op"], v[0]), sp)
        if k == "bin":
            a = self.ev(e["l"], env)
            b = self.ev(e["r"], env)
            if e["op"] in self.CMP:
                return ("bool", self.CMP[e["op"]](self.key(a, sp), self.key(b, sp)))
            if a[0] == "num" and b[0] == "num":
                return self.arith(e["op"], a, b, a[2], sp)
            if a[0] == "bool" and b[0] == "bool" and e["op"] in ("BitAnd", "BitOr", "BitXor"):
                return ("bool", {"BitAnd": a[1] and b[1], "BitOr": a[1] or b[1], "BitXor": a[1] != b[1]}[e["op"]])
            raise CannotFold("binary %s on %s, %s" % (e["op"], a[0], b[0]), sp)
        if k == "cast":
            v = self.ev(e["e"], env)
            to = e["to"]["s"]
            if to in INT_RANGES:
                if v[0] == "variant":
                    d = self.discr(v[1], v[2])
                    if d is None:
                        raise CannotFold("unknown discriminant", sp)
                    x = d
                elif v[0] == "num" and v[2] in INT_RANGES:
                    x = int(v[1])
                elif v[0] == "bool":
                    x = int(v[1])
                else:
                    raise CannotFold("cast %s -> %s" % (v[0], to), sp)
                lo, hi = INT_RANGES[to]
                m = hi - lo + 1
                x = (x - lo) % m + lo        # `as` wraps
                return num(x, to)
            raise CannotFold("cast to " + to, sp)
        if k == "match":
            v = self.ev(e["scrut"], env)
            # variable ids are unique within a function, so one flat environment serves all scopes
            for arm in e["arms"]:
                if self.bind(arm["pat"], v, env):
                    if arm["guard"] is not None:
                        g = self.ev(arm["guard"], env)
                        if g[0] != "bool":
                            raise CannotFold("guard is not a boolean", sp)
                        if not g[1]:
                            continue
                    return self.ev(arm["body"], env)
            raise CannotFold("no arm matches", sp)
        if k == "assign":
            self.assign(e["l"], self.ev(e["r"], env), env)
            return UNIT
        if k == "assign_op":
            cur = self.ev(e["l"], env)
            r = self.ev(e["r"], env)
            if cur[0] != "num" or r[0] != "num":
                raise CannotFold("compound assignment on " + cur[0], sp)
            op = e["op"].replace("Assign", "")
            self.assign(e["l"], self.arith(op, cur, r, cur[2], sp), env)
            return UNIT
        if k == "loop":
            while True:
                try:
                    self.ev(e["body"], env)
                except _Break as b:
                    return b.v
                except _Continue:
                    pass
        if k == "break":
            raise _Break(self.ev(e["e"], env) if e["e"] is not None else UNIT)
        if k == "continue":
            raise _Continue()
        if k == "return":
            raise _Return(self.ev(e["e"], env) if e["e"] is not None else UNIT)
        if k == "index":
            base = self.ev(e["e"], env)
            i = self.ev(e["i"], env)
            if base[0] == "array" and i[0] == "num":
                n = int(i[1])
                if 0 <= n < len(base[1]):
                    return base[1][n]
                raise FoldPanic("index %d out of bounds (len %d)" % (n, len(base[1])))
            raise CannotFold("index into " + base[0], sp)
        if k == "field":
            v = self.ev(e["e"], env)
            if v[0] == "tuple":
                return v[1][e["idx"]]
            if v[0] == "struct" and e.get("name") in v[2]:
                return v[2][e["name"]]
            raise CannotFold("field of " + v[0], sp)
        if k == "tuple":
            return ("tuple", [self.ev(x, env) for x in e["elems"]])
        if k == "array":
            return ("array", [self.ev(x, env) for x in e["elems"]])
        if k == "adt":
            if e["has_base"]:
                raise CannotFold("struct update syntax", sp)
            if e["path"] == "core::option::Option":
                return ("some", self.ev(e["fields"][0]["e"], env)) if e["variant"] == "Some" else ("none",)
            if e["is_enum"]:
                if e["fields"]:
                    raise CannotFold("enum variant with fields", sp)
                return ("variant", e["path"], e["variant"])
            return ("struct", e["path"], {f["name"]: self.ev(f["e"], env) for f in e["fields"]})
        if k == "scalar":
            ty = e["ty"]["s"]
            bits = int(e["bits"])
            if ty == "bool":
                return ("bool", bool(bits))
            if ty in INT_RANGES:
                lo, hi = INT_RANGES[ty]
                if bits > hi:
                    bits -= hi - lo + 1
                return num(bits, ty)
            raise CannotFold("scalar of type " + ty, sp)
        if k in ("lit", "const"):
            try:
                return self.folder.fold(e)
            except Unfoldable as u:
                if k == "const":
                    # a constant whose initialiser is itself code (e.g. a compile-time assertion loop)
                    b = self.U.get_body(e.get("resolved") or e["path"])
                    if b is not None and not b.get("params"):
                        return Ctfe.call_body(self, b, [])
                raise CannotFold(u.what, u.sp or sp)
        if k == "call":
            f = e.get("fn")
            if not f:
                raise CannotFold("indirect call", sp)
            p = f["path"]
            args = [self.ev(x, env) for x in e["args"]]
            if p in ("core::slice::<impl [T]>::len", "core::array::<impl [T; N]>::len") or (f["name"] == "len" and args and args[0][0] == "array"):
                if args[0][0] == "array":
                    return num(len(args[0][1]), "usize")
                raise CannotFold("len of " + args[0][0], sp)
            if p.startswith("core::panicking::") or p.startswith("std::rt::begin_panic") or p.startswith("core::panic"):
                raise FoldPanic("explicit panic")
            target = (f.get("resolved") or {}).get("path") or p
            b = self.U.get_body(target) if f.get("local") or f.get("resolved") else None
            if b is not None:
                return Ctfe.call_body(self, b, args)
            raise CannotFold("call to " + p, sp)
        raise CannotFold("expression kind " + (e.get("kind") or k), sp)
