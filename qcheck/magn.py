"""Magnitude-bound analysis for the decimal back-end (C18, derived operators).

fpdec-0.11 semantics (read from its source, part of the trusted base): with at
most 18 fractional digits and an i128 coefficient, `*` and `/` panic with
"Internal representation exceeded" iff the result's coefficient does not fit,
which for a result carrying 18 fractional digits means |value| >= 2^127/10^18
(~1.7e20); `+`/`-` align coefficients by a power of ten <= 10^18.  Hence a
SUFFICIENT condition for "no panic" is that every arithmetic node of the
value-flow term stays below T = 2^127 / 10^18, and a node that can reach T
for admissible inputs (with amounts carrying enough fractional digits) is a
real panic.

The property bounds the *named magnitudes* (operands and result in reference
units and in the smallest unit of their quantity, the combined unit scale) to
[1e-15, 1e17].  For a concrete unit pair the scales are table constants, so
every node is a monomial c * a^i * b^j in the two operand amounts and the
assumptions are a box plus a band constraint on a (x) b: a convex polygon in
log space whose vertices have rational coordinates.  A monomial is maximised
at a vertex — the bound is computed exactly with rationals, no solver."""
from fractions import Fraction

from . import term as T

L = Fraction(1, 10 ** 15)
U = Fraction(10 ** 17)
THRESH = Fraction(2 ** 127, 10 ** 18)


def round18(x):
    """Decimal result rounded to 18 fractional digits (half even)."""
    scaled = x * 10 ** 18
    n = scaled.numerator // scaled.denominator
    rem = scaled - n
    if rem > Fraction(1, 2) or (rem == Fraction(1, 2) and n % 2 == 1):
        n += 1
    return Fraction(n, 10 ** 18)


class Region:
    """{(a, b) > 0 : a in [alo, ahi], b in [blo, bhi], a (x) b in [rlo, rhi]}"""

    def __init__(self, op, alo, ahi, blo, bhi, rlo, rhi):
        self.op = op
        self.alo, self.ahi, self.blo, self.bhi, self.rlo, self.rhi = alo, ahi, blo, bhi, rlo, rhi
        self.vertices = self._vertices()

    def comb(self, a, b):
        return a * b if self.op == "*" else a / b

    def feasible(self, a, b):
        if a <= 0 or b <= 0:
            return False
        r = self.comb(a, b)
        return self.alo <= a <= self.ahi and self.blo <= b <= self.bhi and self.rlo <= r <= self.rhi

    def _vertices(self):
        if self.alo > self.ahi or self.blo > self.bhi or self.rlo > self.rhi:
            return []
        cand = []
        for a in (self.alo, self.ahi):
            for b in (self.blo, self.bhi):
                cand.append((a, b))
            for r in (self.rlo, self.rhi):
                cand.append((a, r / a if self.op == "*" else a / r))
        for b in (self.blo, self.bhi):
            for r in (self.rlo, self.rhi):
                cand.append((r / b if self.op == "*" else r * b, b))
        out = []
        for (a, b) in cand:
            if self.feasible(a, b) and (a, b) not in out:
                out.append((a, b))
        return out

    def max_mono(self, c, i, j):
        """max |c| a^i b^j over the region (attained at a vertex) and its argmax."""
        best = None
        for (a, b) in self.vertices:
            v = abs(c) * a ** i * b ** j
            if best is None or v > best[0]:
                best = (v, a, b)
        return best


class NotMonomial(Exception):
    pass


def mono(t, leaf):
    """(c, i, j) with t = c * a^i * b^j; leaf(term) -> ('a'|'b'|Fraction|None)."""
    t = T.canon(t)
    h = t[0]
    if h == "num":
        return (t[1], 0, 0)
    lv = leaf(t)
    if lv == "a":
        return (Fraction(1), 1, 0)
    if lv == "b":
        return (Fraction(1), 0, 1)
    if isinstance(lv, Fraction):
        return (lv, 0, 0)
    if h == "*":
        x, y = mono(t[1], leaf), mono(t[2], leaf)
        return (x[0] * y[0], x[1] + y[1], x[2] + y[2])
    if h == "/":
        x, y = mono(t[1], leaf), mono(t[2], leaf)
        if y[0] == 0:
            raise NotMonomial("division by the constant zero")
        return (x[0] / y[0], x[1] - y[1], x[2] - y[2])
    if h in ("neg", "abs"):
        return mono(t[1], leaf)
    raise NotMonomial(T.show(t))


def arith_nodes(t, acc=None):
    """All arithmetic sub-terms (post-order)."""
    acc = acc if acc is not None else []
    if not isinstance(t, tuple):
        return acc
    if t[0] == "app":
        for x in t[3]:
            arith_nodes(x, acc)
        return acc
    if t[0] in ("p", "num", "str", "bool", "variant", "closure", "const"):
        return acc
    for x in t[1:]:
        if isinstance(x, tuple):
            arith_nodes(x, acc)
    if t[0] in ("+", "-", "*", "/"):
        acc.append(t)
    return acc


def bound(t, leaf, region):
    """Upper bound of |t| over the region: exact for monomials, triangle
    inequality for sums. Returns (bound, witness (a, b) or None)."""
    try:
        c, i, j = mono(t, leaf)
        m = region.max_mono(c, i, j)
        return (m[0], (m[1], m[2])) if m else (Fraction(0), None)
    except NotMonomial:
        t = T.canon(t)
        if t[0] in ("+", "-"):
            x, y = bound(t[1], leaf, region), bound(t[2], leaf, region)
            return (x[0] + y[0], x[1] or y[1])
        raise
