"""C14 — table-driven conversions apply the declared affine map."""
import json
import os
from fractions import Fraction

from . import decls as D, fold, generic as G, model, oracle, spec as S, term as T, ws
from .model import ModelError

CONVERT = "<quantities::converter::ConversionTable<Q, N> as quantities::converter::Converter<Q>>::convert"
ITER = "core::iter::traits::iterator::Iterator::"
SLICE_ITER = "core::slice::<impl [T]>::iter"
THEN = "core::bool::<impl bool>::then"


def one(outs):
    if len(outs) == 1 and not outs[0][0] and outs[0][1] == "val":
        return T.canon(outs[0][2])
    return None


def generic_form(ctx, config, U):
    self_, qty, to = S.P(0, "self"), S.P(1, "qty"), S.P(2, "to_unit")
    outs, b, ev = G.summarize(U, CONVERT, set())
    same = T.canon(("==", S.unit(qty), to))
    where = b["span"]
    desc = "; ".join("[%s] %s" % (T.show_guard(g), T.show(t)) for g, k, t in outs)
    ctx.sample({"function": CONVERT, "summary": desc[:700]})
    sel_same = [(k, t) for (g, k, t) in outs if dict(g).get(same) is True]
    sel_diff = [(g, k, t) for (g, k, t) in outs if dict(g).get(same) is False]
    ok = len(sel_same) == 1 and len(sel_same) + len(sel_diff) == len(outs) and len(sel_diff) in (1, 2)
    ctx.ob("convert-cases", config, ok, "convert does not split on `qty.unit() == to_unit` first: " + desc, where)
    if not ok:
        return
    # 1. same unit: the value unchanged
    ctx.ob("convert-same-unit", config, sel_same[0] == ("val", ("some", qty)),
           "with the target unit already set convert returns %s, expected Some(*qty)" % T.show(sel_same[0][1]), where)
    # 2. otherwise: first matching row by find_map over the table — either the find_map value itself, or (a
    #    search loop / `if let Some(v) = ..find_map(..) { return v }`) split on whether it found something
    wrapped = False
    t = None
    if len(sel_diff) == 1 and sel_diff[0][1] == "val" and len(sel_diff[0][0]) == 1:
        t = sel_diff[0][2]
    elif len(sel_diff) == 2:
        found = [x for x in sel_diff if len(x[0]) == 2 and x[2][0] == "unwrap"]
        if len(found) == 1:
            fm = found[0][2][1]
            atom = T.canon(("isvar", fm, "Some"))
            other = [x for x in sel_diff if x is not found[0]][0]
            if dict(found[0][0]).get(atom) is True and dict(other[0]).get(atom) is False and len(other[0]) == 2 \
                    and other[1] == "val" and T.canon(other[2]) == ("none",):
                t, wrapped = fm, True
    ITER_SRC = ("app", SLICE_ITER, None, (("field", self_, "mappings"),))
    row = T.P(100, "row")
    co = None
    if t is not None and t[0] == "app" and t[1] == ITER + "find_map" and len(t[3]) == 2 and t[3][0] == ITER_SRC and t[3][1][0] in ("closure", "lam"):
        try:
            co = ev.summarize_closure(t[3][1], [row])
        except T.Unsupported as x:
            ctx.fail("convert-row-closure", config, "unsupported construct in the row closure: " + x.what, x.sp or where)
            return
    elif len(sel_diff) == 2:
        # `iter().find(pred).map(f)`: split on whether find found a row
        for (g1, k1, t1) in sel_diff:
            fa = [a for a, pol in g1 if a[0] == "isvar" and a[2] == "Some" and pol and a[1][0] == "app" and a[1][1] == ITER + "find"]
            if len(fa) != 1 or k1 != "val" or T.canon(t1)[0] != "some":
                continue
            find = fa[0][1]
            other = [x for x in sel_diff if x[0] is not g1][0]
            if not (len(find[3]) == 2 and find[3][0] == ITER_SRC and find[3][1][0] in ("closure", "lam") and dict(other[0]).get(fa[0]) is False
                    and other[1] == "val" and T.canon(other[2]) == ("none",)):
                continue
            try:
                po = ev.summarize_closure(find[3][1], [row])
            except T.Unsupported as x:
                ctx.fail("convert-row-closure", config, "unsupported construct in the row predicate: " + x.what, x.sp or where)
                return
            val = T.subst(T.canon(t1), {T.canon(("unwrap", find)): row})
            co = []
            for (g2, k2, b2) in po:
                if k2 != "val":
                    co.append((g2, k2, b2))
                    continue
                gt, gf = T.gadd(g2, b2, True), T.gadd(g2, b2, False)
                if gt is not None:
                    co.append((gt, "val", val))
                if gf is not None:
                    co.append((gf, "val", ("none",)))
    ctx.ob("convert-find-map", config, co is not None,
           "other units: %s — expected the first `Some` of a row function over self.mappings in table order (find_map, a search loop, or find + map), None if there is none" % desc, where)
    if co is None:
        return
    if wrapped:
        # the row function of the search form returns Some(<value returned by convert>)
        co = [(g, k, (x[1] if x[0] == "some" else x)) for (g, k, x) in co]
    # the row closure decided over the truth table of its conditions: Some(new(amount * factor + offset, to_unit))
    # exactly for `row.from == qty.unit() && row.to == to_unit`, None otherwise
    f0, f1, f2, f3 = (("field", row, i) for i in range(4))
    want_cond = ("and", ("==", f0, S.unit(qty)), ("==", f1, to))
    want = S.new(S.R(("+", ("*", S.amount(qty), f2), f3)), to)
    atoms = T.guard_atoms(co, extra=[want_cond])
    bad_sel = bad_map = None
    n_cases = 0
    for asg in T.assignments(atoms):
        sel = T.select(co, asg)
        n_cases += 1
        if len(sel) != 1 or sel[0][0] != "val":
            bad_sel = "%d outcomes / diverging for %s" % (len(sel), {T.show(a): v for a, v in asg.items()})
            break
        r = T.canon(sel[0][1])
        if T.bool_eval(want_cond, asg):
            if r[0] != "some":
                bad_sel = "a matching row is not selected (%s)" % T.show(r)
                break
            if S.match(r[1], want) is not None:
                bad_map = T.show(r[1])
        elif r[0] == "discard":
            bad_sel = ("for a row that does not match, %s is computed and discarded: the affine map of every earlier table entry is evaluated "
                       "(and can overflow in the decimal back-end) before the matching one is found" % T.show(r[1]))
            break
        elif r != ("none",):
            bad_sel = "a row is selected (%s) although %s" % (T.show(r), {T.show(a): v for a, v in asg.items()})
            break
    ctx.ob("convert-row-match", config, bad_sel is None,
           "row selection is not `row.from == qty.unit() && row.to == to_unit`: %s" % bad_sel, where)
    ctx.ob("convert-affine-map", config, bad_sel is None and bad_map is None,
           "converted value is %s, expected new(amount * factor + offset, to_unit)" % (bad_map or "?"), where)


def temperature_table(ctx, config, w):
    U = w.U
    amt = ws.amount_type(config)
    path = "quantities::temperature::TEMPERATURE_CONVERTER"
    b = U.get_body(path)
    if b is None:
        raise ModelError("anchor", "constant TEMPERATURE_CONVERTER not found")
    try:
        v = U.folder.fold(b["value"])
    except fold.Unfoldable as u:
        raise ModelError("unsupported-construct", "TEMPERATURE_CONVERTER is not a constant table (%s)" % u.what, u.sp or b["span"])
    if v[0] != "struct" or "mappings" not in v[2] or v[2]["mappings"][0] != "array":
        raise ModelError("unsupported-construct", "TEMPERATURE_CONVERTER is not a ConversionTable literal", b["span"])
    rows = []
    for r in v[2]["mappings"][1]:
        if r[0] != "tuple" or len(r[1]) != 4 or r[1][0][0] != "variant" or r[1][1][0] != "variant" or r[1][2][0] != "num" or r[1][3][0] != "num":
            raise ModelError("unsupported-construct", "table row is not (unit, unit, number, number)", b["span"])
        rows.append((r[1][0][2], r[1][1][2], r[1][2], r[1][3]))
    where = b["span"]
    ctx.floor("%s: temperature table rows" % config, len(rows), 6)
    orc = json.load(open(os.path.join(oracle.ODIR, "temperature.json")))["maps"]
    units = sorted({D.upper_camel(m[0]) for m in orc})
    q = w.by_path.get("quantities::temperature::Temperature")
    ctx.ob("table-units", config, q is not None and sorted(q.variants) == units, "Temperature units %s, expected %s" % (q and q.variants, units), where)
    # 3. pairs: every ordered pair of distinct units exactly once
    pairs = [(f, t) for (f, t, _, _) in rows]
    want_pairs = sorted((a, b2) for a in units for b2 in units if a != b2)
    ctx.ob("table-pairs", config, sorted(pairs) == want_pairs, "table covers %s, expected each ordered pair of distinct units once" % sorted(pairs), where)
    # first matching row per pair (find_map semantics)
    first = {}
    for (f, t, fa, off) in rows:
        first.setdefault((f, t), (fa, off))

    def tol_ok(got, want):
        if amt == "f64":
            return abs(got - want) <= abs(want) * Fraction(1, 2 ** 52) if want != 0 else got == 0
        return abs(got - want) <= Fraction(1, 10 ** 18)
    for (f, t, fs, os_) in orc:
        key = (D.upper_camel(f), D.upper_camel(t))
        inst = "%s/%s->%s" % (config, f, t)
        if key not in first:
            ctx.fail("table-row", inst, "no table entry for this pair", where)
            continue
        (fa, off) = first[key]
        wf, wo = Fraction(fs), Fraction(os_)
        ctx.ob("table-types", inst, fa[2] == amt and off[2] == amt, "constants are not of the amount type", where, nontrivial=False)
        for label, got, want in (("factor", fa[1], wf), ("offset", off[1], wo)):
            if oracle.terminating(want):
                # the literal's exact value in the amount type
                exp_v = Fraction(float(want)) if amt == "f64" else want
                ok = got == exp_v
                bound = "exactly"
            else:
                ok = tol_ok(got, want)
                bound = "within 2^-52 relative" if amt == "f64" else "within 1e-18"
            ctx.ob("table-row", "%s/%s" % (inst, label), ok,
                   "%s of %s -> %s is %s (%s), the physical formula gives %s (must agree %s)" % (label, f, t, float(got), fa[3] if label == "factor" else off[3], want, bound), where)
    # 5. inverse pairs and compositions (rational arithmetic on the extracted constants)
    eps = Fraction(1, 10 ** 15)
    for (a, b2) in want_pairs:
        if (a, b2) in first and (b2, a) in first:
            (f1, o1), (f2, o2) = first[(a, b2)], first[(b2, a)]
            inv = abs(f1[1] * f2[1] - 1) <= eps and abs(f2[1] * o1[1] + o2[1]) <= eps * (abs(f2[1] * o1[1]) + abs(o2[1]) + 1)
            ctx.ob("table-inverse", "%s/%s<->%s" % (config, a, b2), inv,
                   "%s->%s followed by %s->%s is x*%s + %s, not the identity" % (a, b2, b2, a, float(f1[1] * f2[1]), float(f2[1] * o1[1] + o2[1])), where)
        for c in units:
            if c in (a, b2):
                continue
            if (a, b2) in first and (b2, c) in first and (a, c) in first:
                (f1, o1), (f2, o2), (f3, o3) = first[(a, b2)], first[(b2, c)], first[(a, c)]
                ok = abs(f2[1] * f1[1] - f3[1]) <= eps * abs(f3[1]) and abs(f2[1] * o1[1] + o2[1] - o3[1]) <= eps * (abs(f2[1] * o1[1]) + abs(o2[1]) + abs(o3[1]) + 1)
                ctx.ob("table-compose", "%s/%s->%s->%s" % (config, a, b2, c), ok,
                       "%s->%s->%s gives x*%s + %s but the direct entry is x*%s + %s" % (a, b2, c, float(f2[1] * f1[1]), float(f2[1] * o1[1] + o2[1]), float(f3[1]), float(o3[1])), where)


def run(ctx):
    for config in ("f64-all", "dec-all") + (("f64-nostd", "dec-nostd") if ctx.tier == "thorough" else ()):
        w = ws.load(config)
        ctx.configs.append(config)
        generic_form(ctx, config, w.U)
        temperature_table(ctx, config, w)
    ctx.rule_text = "generic convert: two-way split, identity branch, find_map source, row predicate truth table, affine map; temperature table: 6 pairs, 12 constants vs exact formulas, inverse and composition consistency"
    ctx.trusted = ["std contracts: <[T]>::iter order, Iterator::find_map = first Some, bool::then", "oracle/temperature.json"]
    ctx.assumptions = ["size of the rounding error of amount*factor+offset not decided (2 operations)"]
    ctx.explanation = ("ConversionTable::convert is one generic body: its summary is compared with the specification (any table is covered by that form); "
                       "the predefined temperature table is folded from its constant in both back-ends and compared with exact rational formulas.")
