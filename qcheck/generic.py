"""Shared helpers for the value-flow rules on the generic default methods."""
from . import model, spec as S, term as T
from .model import ModelError

HRU = "quantities::HasRefUnit::"
QTY = "quantities::Quantity::"
LSU = "quantities::LinearScaledUnit::"
UNIT = "quantities::Unit::"

# "*": every default method of the quantities traits is inlined (so helper
# extraction into new default methods stays transparent) except the ones the
# specifications mention by name.
INL_CONV = {"*"}
STOP = {"Quantity::iter_units", "Quantity::unit_from_symbol", "Quantity::fmt", "Unit::from_symbol", "Unit::as_qty", "Unit::fmt",
        "LinearScaledUnit::from_scale", "LinearScaledUnit::is_ref_unit", "HasRefUnit::unit_from_scale", "HasRefUnit::_fit",
        "HasRefUnit::convert", "HasRefUnit::eq", "HasRefUnit::partial_cmp", "HasRefUnit::add", "HasRefUnit::sub", "HasRefUnit::div",
        "Quantity::eq", "Quantity::partial_cmp", "Quantity::add", "Quantity::sub", "Quantity::div"}
# for the lookups: delegation between the four lookup functions is transparent
STOP_LOOKUP = STOP - {"LinearScaledUnit::from_scale", "HasRefUnit::unit_from_scale", "Unit::from_symbol", "Quantity::unit_from_symbol"}


def body(U, path, rule="anchor"):
    b = U.get_body(path)
    if b is None:
        raise ModelError(rule, "function %s not found in the type-checked program" % path)
    return b


def type_overrides(U, q):
    """{short trait method name: path of q's own impl method} for every default method of Unit / LinearScaledUnit /
    Quantity / HasRefUnit that the impls of quantity type q override."""
    res = {}
    for imp, short in ((q.impl_unit, "Unit"), (getattr(q, "impl_lsu", None), "LinearScaledUnit"),
                       (q.impl_quantity, "Quantity"), (getattr(q, "impl_hru", None), "HasRefUnit")):
        if imp is None:
            continue
        t = U.trait_items.get(imp.get("trait"))
        if t is None:
            continue
        defaults = {i["name"] for i in t["items"] if i.get("has_default") and i.get("kind") == "fn"}
        for it in imp["items"]:
            if it["name"] in defaults and it.get("kind") == "fn":
                res["%s::%s" % (short, it["name"])] = it["path"]
    return res


def summarize(U, path, inline=(), keep_tags=False, args=None, stop=None, overrides=None):
    b = body(U, path)
    short = None
    for pfx, nm in ((UNIT, "Unit::"), (LSU, "LinearScaledUnit::"), (QTY, "Quantity::"), (HRU, "HasRefUnit::")):
        if path.startswith(pfx):
            short = nm + path[len(pfx):]
    if overrides and short in overrides and overrides[short] in U.body:
        b = U.body[overrides[short]]      # the entry point itself is overridden for this type
    ev = T.Evaluator(U, inline=inline, keep_tags=keep_tags, stop=STOP if stop is None else stop, overrides=overrides)
    try:
        outs = ev.summarize(b, args=args)
    except T.Unsupported as u:
        raise ModelError("unsupported-construct", "%s: %s" % (path, u.what), u.sp or b["span"])
    return [(g, k, T.canon(t)) for (g, k, t) in outs], b, ev


def check_spec(ctx, rule, inst, U, path, inline, atoms, spec_fn, keep_tags=False, args=None, feasible=None):
    try:
        outs, b, ev = summarize(U, path, inline, keep_tags, args)
    except ModelError as e:
        # fail closed, but keep evaluating the other rules
        ctx.ob(rule, inst, False, "%s: %s" % (e.rule, e.what), e.where)
        return None, None
    problems = list(S.compare_cases(outs, atoms, spec_fn, feasible))
    obs = "; ".join("[%s] %s %s" % (T.show_guard(g), k, T.show(t)) for g, k, t in outs)
    if problems:
        ctx.ob(rule, inst, False, "%s — observed summary: %s" % (problems[0][1], obs), b["span"])
    else:
        ctx.ob(rule, inst, True, "", b["span"])
    ctx.sample({"function": path, "summary": obs[:600]})
    # number of rounding operations per case: bounds the "rounding of the amount type"
    # (f64: relative error <= n*2^-53/(1-n*2^-53) by the standard model, barring under/overflow)
    from . import ratfun
    ctx.extra.setdefault("rounding_operations", {})["%s/%s [%s]" % (rule, path.split("::")[-1], inst)] = {
        T.show_guard(g): max([ratfun.count_roundings(x) for x in ([t] if k == "val" else [])] or [0]) for g, k, t in outs}
    return outs, b


def provided_items(impl):
    return sorted(i["name"] for i in impl["items"] if i["kind"] != "type" or True)


def overrides(ctx, rule, U, trait, allowed, label):
    """Reports impls of `trait` that provide items beyond `allowed`
    (i.e. override default methods). Returns {self type: [item names]}."""
    res = {}
    for imp in U.all_impls(trait):
        names = [i["name"] for i in imp["items"]]
        extra = [n for n in names if n not in allowed]
        tk = model.ty_key(imp["self_ty"])
        if extra:
            res[tk] = (extra, imp)
    return res


def unit_identity(ctx, config, w):
    """`unit == unit` is identity: PartialEq of every unit enum is the derive
    for a field-less enum, i.e. equality of discriminants (all value-flow rules
    treat unit equality as identity of the variant)."""
    from .model import peel, ty_key
    n = 0
    for q in w.qtypes:
        up = q.unit_path
        crate = q.crate if up.startswith(q.crate.name + "::") else next((c for c in w.crates if up.startswith(c.name + "::")), q.crate)
        imps = [i for i in crate.impls if i.get("trait") == "core::cmp::PartialEq" and ty_key(i["self_ty"]) == up]
        inst = "%s/%s" % (config, up)
        if len(imps) != 1:
            ctx.fail("unit-identity", inst, "expected exactly one impl PartialEq for the unit enum, found %d" % len(imps), q.span)
            continue
        imp = imps[0]
        b = w.U.item_body(imp, "eq")
        ok = False
        why = "no body"
        if b is not None:
            ev = T.Evaluator(w.U, keep_tags=False)
            try:
                outs = ev.summarize(b)
                t = T.canon(outs[0][2]) if len(outs) == 1 and not outs[0][0] else None
                disc = lambda x: ("app", "core::intrinsics::discriminant_value", None, (x,))
                want = T.canon(("==", disc(S.P(0, "self")), disc(S.P(1, "other"))))
                adt = crate.adt_by_path.get(up)
                fieldless = adt is not None and all(not v["fields"] for v in adt["variants"])
                single = adt is not None and len(adt["variants"]) == 1 and t == ("bool", True)
                ok = (t == want or single) and fieldless and (imp.get("expn") or "").startswith("Macro(Derive")
                why = "PartialEq::eq of %s is %s (provenance %s)" % (up, T.show(t) if t else outs, imp.get("expn"))
            except T.Unsupported as x:
                why = "unsupported construct: " + x.what
        items = {i["name"] for i in imp["items"]}
        ctx.ob("unit-identity", inst, ok and items == {"eq"}, why + "; expected the derived discriminant equality and no `ne` override", imp["span"], nontrivial=False)
        n += 1
    return n
