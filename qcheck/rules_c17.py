"""C17 — serialisation (structure): plain serde derives on every generated
enum and struct, variants under their own names, every field written, no
#[serde(..)] attributes, feature wiring.  The JSON text round trip of floats
and decimals is a property of serde_json / ryu / fpdec and is not decided."""
import os
import tomllib

from . import facts, fold, model, thirwalk, ws
from .model import ModelError, peel

SER = "serde_core::ser::Serialize"
DE = "serde_core::de::Deserialize"
SER_ALT = ("serde_core::ser::Serialize", "serde::ser::Serialize")
DE_ALT = ("serde_core::de::Deserialize", "serde::de::Deserialize")


def impls_for(crate, traits, ty):
    return [i for i in crate.impls if i.get("trait") in traits and model.ty_key(i["self_ty"]) == ty]


def is_derive(imp, name):
    e = imp.get("expn") or ""
    return e.startswith("Macro(Derive") and name in e


def lit_str(e):
    e = peel(e)
    if e and e["k"] == "lit" and e["lit"]["t"] == "str":
        return e["lit"]["v"]
    return None


def check_types(ctx, config, w, expect_serde, counts):
    U = w.U
    for q in w.qtypes:
        if q.kind == "dimless":
            continue
        if q.crate.name not in ("quantities", "test_serde"):
            continue
        crate = q.crate
        for ty, kind in ((q.unit_path, "enum"), (q.path, "struct")):
            inst = "%s/%s" % (config, ty)
            ser = impls_for(crate, SER_ALT, ty)
            de = impls_for(crate, DE_ALT, ty)
            if not expect_serde:
                ctx.ob("no-serde-without-feature", inst, not ser and not de, "serde impls exist although the serde feature is off", q.span)
                continue
            ok = len(ser) == 1 and len(de) == 1 and is_derive(ser[0], "Serialize") and is_derive(de[0], "Deserialize")
            ctx.ob("serde-derives", inst, ok,
                   "expected exactly one derived Serialize and one derived Deserialize impl, found %d / %d (%s)" % (
                       len(ser), len(de), [i.get("expn") for i in ser + de]), q.span)
            if not ok:
                continue
            counts["types"].add((config, ty))
            adt = crate.adt_by_path[ty]
            # no #[serde(..)] attributes anywhere on the item
            attrs = list(adt["attrs"])
            for v in adt["variants"]:
                attrs += v.get("attrs") or []
                for f in v["fields"]:
                    attrs += f.get("attrs") or []
            bad = [a for a in attrs if a.get("path", "").split("::")[-1] == "serde"]
            ctx.ob("no-serde-attributes", inst, not bad, "#[serde(..)] attribute(s) on the generated item: %s" % bad, adt["span"])
            # derive helper attributes are not retained in HIR, so customisations are detected on
            # the expansion: (a) no cfg_attr trace on variants / fields, (b) the derived bodies call
            # nothing of this crate and (c) the struct serializer is unconditional
            traces = []
            for v in adt["variants"]:
                traces += [("variant " + v["name"], a) for a in (v.get("attrs") or []) if a.get("parsed") == "CfgAttrTrace"]
                for f in v["fields"]:
                    traces += [("field " + f["name"], a) for a in (f.get("attrs") or []) if a.get("parsed") == "CfgAttrTrace"]
            ctx.ob("no-conditional-attributes", inst, not traces,
                   "cfg_attr(..) on %s of the generated item: a serde helper attribute changes the representation" % sorted({t[0] for t in traces}), adt["span"])
            scope_ser = "Serialize for %s>" % ty
            scope_de = "Deserialize<'de> for %s>" % ty
            custom = []
            n_if = 0
            for pth, bd in crate.bodies.items():
                if scope_ser not in pth and scope_de not in pth:
                    continue
                for cnode in thirwalk.calls(bd.get("value")):
                    f = cnode["fn"]
                    fp = (f.get("resolved") or {}).get("path") or f["path"]
                    local = f.get("local") or fp.startswith(crate.name + "::") or fp.startswith("<" + crate.name + "::")
                    if local and "::_::<impl serde" not in fp and "::_::<impl serde" not in f["path"]:
                        custom.append(f["path"])
                if scope_ser in pth and pth.endswith("::serialize") and kind == "struct":
                    cnt = [0]
                    thirwalk.walk(bd.get("value"), lambda n: cnt.__setitem__(0, cnt[0] + (1 if n.get("k") == "if" else 0)))
                    n_if += cnt[0]
            ctx.ob("derive-not-customised", inst, not custom and n_if == 0,
                   "the derived serde code of %s calls crate-local function(s) %s / contains %d conditional(s): a serde attribute (skip, default, with, ..) customises the representation"
                   % (ty, sorted(set(custom)), n_if), adt["span"])
            sb = U.item_body(ser[0], "serialize")
            if sb is None:
                ctx.fail("serialize-body", inst, "no body for the derived serialize", ser[0]["span"])
                continue
            if kind == "enum":
                e = peel(sb["value"])
                rows = {}
                shape_ok = e["k"] == "match"
                if shape_ok:
                    for arm in e["arms"]:
                        p = arm["pat"]
                        while p["k"] == "deref":
                            p = p["sub"]
                        c = thirwalk.calls(arm["body"], lambda f: f["name"] == "serialize_unit_variant")
                        if p["k"] != "variant" or len(c) != 1 or len(c[0]["args"]) != 4:
                            shape_ok = False
                            break
                        try:
                            idx = U.folder.fold(c[0]["args"][2])
                        except fold.Unfoldable:
                            shape_ok = False
                            break
                        rows[p["variant"]] = (lit_str(c[0]["args"][1]), int(idx[1]) if idx[0] == "num" else None, lit_str(c[0]["args"][3]))
                if not shape_ok:
                    ctx.fail("serialize-enum", inst, "derived Serialize of the unit enum is not a table of serialize_unit_variant calls", sb["span"])
                    continue
                names = [v["name"] for v in adt["variants"]]
                for i, v in enumerate(names):
                    r = rows.get(v)
                    ctx.ob("serialize-enum", "%s/%s" % (inst, v), r is not None and r[2] == v and r[1] == i,
                           "variant %s serialises as %s (expected its own name, index %d)" % (v, r, i), sb["span"])
                injective = len({r[2] for r in rows.values()}) == len(rows) == len(names)
                ctx.ob("serialize-enum-injective", inst, injective, "variant names are not distinct in the serialisation", sb["span"], nontrivial=False)
                vb = [b for p, b in crate.bodies.items() if p.endswith("::VARIANTS") and ("Deserialize<'de> for %s>" % ty) in p]
                if len(vb) == 1:
                    try:
                        v = U.folder.fold(vb[0]["value"])
                        got = [x[1] for x in v[1]] if v[0] == "array" else None
                    except fold.Unfoldable:
                        got = None
                    ctx.ob("deserialize-enum-names", inst, got == names, "Deserialize accepts variant names %s, enum has %s" % (got, names), vb[0]["span"])
                else:
                    ctx.fail("deserialize-enum-names", inst, "derived Deserialize has no VARIANTS table", de[0]["span"])
            else:
                fields = [f["name"] for f in adt["variants"][0]["fields"]]
                cs = thirwalk.calls(sb["value"], lambda f: f["name"] == "serialize_field")
                got = []
                for c in cs:
                    nm = lit_str(c["args"][1])
                    v = peel(c["args"][2])
                    src = v.get("name") if v and v["k"] == "field" and peel(v["e"]).get("name") == "self" else None
                    got.append((nm, src))
                want = [(f, f) for f in fields]
                ctx.ob("serialize-struct", inst, got == want,
                       "derived Serialize writes %s, expected every field under its own name: %s" % (got, want), sb["span"])
                st = thirwalk.calls(sb["value"], lambda f: f["name"] == "serialize_struct")
                ctx.ob("serialize-struct-name", inst, len(st) == 1 and lit_str(st[0]["args"][1]) == adt["name"],
                       "serialize_struct name is %s" % ([lit_str(x["args"][1]) for x in st]), sb["span"], nontrivial=False)
                fb = [b for p, b in crate.bodies.items() if p.endswith("::FIELDS") and ("Deserialize<'de> for %s>" % ty) in p]
                if len(fb) == 1:
                    try:
                        v = U.folder.fold(fb[0]["value"])
                        gotf = [x[1] for x in v[1]] if v[0] == "array" else None
                    except fold.Unfoldable:
                        gotf = None
                    ctx.ob("deserialize-struct-fields", inst, gotf == fields, "Deserialize reads fields %s, struct has %s" % (gotf, fields), fb[0]["span"])
                else:
                    ctx.fail("deserialize-struct-fields", inst, "derived Deserialize has no FIELDS table", de[0]["span"])
                # fields: amount (+ unit)
                ctx.ob("struct-fields", inst, fields in (["amount", "unit"], ["amount"]), "generated struct has fields %s" % fields, adt["span"], nontrivial=False)


def feature_wiring(ctx):
    with open(os.path.join(facts.REPO, "Cargo.toml"), "rb") as fh:
        t = tomllib.load(fh)
    feats = t.get("features", {})
    s = set(feats.get("serde", []))
    ctx.ob("feature-wiring", "serde", s == {"dep:serde", "fpdec?/serde-as-str"},
           "feature serde = %s, expected dep:serde and fpdec?/serde-as-str (Decimal amounts then serialise as strings)" % sorted(s), "Cargo.toml")
    dep = t.get("dependencies", {}).get("serde", {})
    ctx.ob("feature-wiring", "serde-derive", isinstance(dep, dict) and "derive" in dep.get("features", []) and dep.get("optional") is True,
           "dependency serde = %s" % dep, "Cargo.toml")


def run(ctx):
    counts = {"types": set()}
    feature_wiring(ctx)
    configs = [("dec-all", True), ("f64-serde", True), ("f64-all", False)]
    if ctx.tier == "thorough":
        configs.append(("dec-noserde", False))
    for config, expect in configs:
        w = ws.load(config)
        ctx.configs.append(config)
        check_types(ctx, config, w, expect, counts)
    ctx.floor("dec-all serde types", len([x for x in counts["types"] if x[0] == "dec-all"]), 2 * 14)
    ctx.floor("f64-serde serde types", len([x for x in counts["types"] if x[0] == "f64-serde"]), 2 * 14)
    ctx.rule_text = "per generated enum/struct and serde configuration: derive provenance, no serde attributes, variant-name table, field list (Serialize and Deserialize sides)"
    ctx.trusted = ["serde derive expansion semantics for plain (attribute-free) items", "serde_json / ryu / fpdec string conversion (bit-exact text round trip NOT decided)"]
    ctx.assumptions = ["NOT decided: f64 -> JSON text -> f64 and Decimal -> String -> Decimal are bit-exact (properties of serde_json, ryu, fpdec)"]
    ctx.explanation = ("In serde configurations every generated unit enum and quantity struct carries plain derived Serialize/Deserialize impls: enums serialise each variant under its "
                       "own identifier (table extracted from the derive expansion), structs write and read every field, no attribute changes the representation; hence values that "
                       "differ in unit or amount have different serialisations given injective amount serialisation. Without the feature no impl exists.")
