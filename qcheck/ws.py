"""Workspace model of one configuration: universe, quantity types with their
tables, and the declaration <-> generated-type linkage."""
from . import decls, facts, link, model

_WS = {}


class WS:
    pass


def is_modelled(c):
    if not c.is_test:
        return c.name != "qty_macros"
    # integration tests (fixtures); the lib's own unit-test build duplicates the lib
    return "/tests/" in ("/" + c.src) and "qty-macros" not in c.src


def load(config):
    if config in _WS:
        return _WS[config]
    fs = facts.factset(config)
    w = WS()
    w.config = config
    w.fs = fs
    cand = fs.select(lambda n, t: (not t and n != "qty_macros") or (t and n not in facts.LIB_CRATES))
    w.crates = [c for c in cand if is_modelled(c)]
    w.U = model.Universe(fs, w.crates)
    w.qtypes = []
    for c in w.crates:
        for q in w.U.qtypes(c):
            if q.kind == "dimless" and c.name != "quantities":
                continue
            w.U.fill_tables(q)
            w.qtypes.append(q)
    w.decls, w.raw_decls = decls.all_decls()
    files_present = set()
    for c in w.crates:
        for a in c.adts:
            files_present.add(link.span_file_line(a["span"])[0])
        for i in c.impls:
            files_present.add(link.span_file_line(i["span"])[0])
    # definitions inside a `#[cfg(test)]` module of a library file are fixtures of the library's own unit tests; they
    # exist only in its test build, which is not modelled (it duplicates the library)
    def lib_unit_test_fixture(d):
        rf = link.relfile(d.file)
        in_tests_dir = rf.startswith("tests/") or "/tests/" in rf
        return (not in_tests_dir) and any("test" in c for c in (d.cfg_ctx or []))
    w.expected_decls = [d for d in w.decls if link.relfile(d.file) in files_present and not lib_unit_test_fixture(d)]
    w.pairs, w.un_d, w.un_q = link.link(w.expected_decls, w.qtypes)
    w.by_path = {q.path: q for q in w.qtypes}
    w.decl_of = {q.path: d for d, q in w.pairs}
    _WS[config] = w
    return w


def amount_type(config):
    return "fpdec::Decimal" if config.startswith("dec") else "f64"


def crate_label(q):
    return q.crate.name
