"""C13 — rates relate two quantities consistently."""
from . import generic as G, model, opforms, ratfun, spec as S, term as T, ws
from .model import ModelError

RATE = "quantities::rate::Rate"
RPFX = "quantities::rate::Rate::<TQ, PQ>::"
FIELDS = ("term_amount", "term_unit", "per_unit_multiple", "per_unit")
DIV = "core::ops::arith::Div::div"


RATE_MUL = "<quantities::rate::Rate<TQ, PQ> as core::ops::arith::Mul<PQ>>::mul"

def one(outs):
    if len(outs) == 1 and not outs[0][0] and outs[0][1] == "val":
        return T.canon(outs[0][2])
    return None


def rate_adt(ts):
    return ("adt", RATE, "", tuple(zip(FIELDS, ts)))


def generic_rules(ctx, config, U):
    ps = [S.P(i, n) for i, n in enumerate(FIELDS)]
    # 1. constructor / accessors (record axioms)
    outs, b, ev = G.summarize(U, RPFX + "new", set(), args=ps)
    tnew = one(outs)
    ctx.ob("rate-new", config, tnew == rate_adt(ps), "Rate::new(a, u, m, p) = %s" % (T.show(tnew) if tnew else outs), b["span"])
    if tnew is not None:
        for i, f in enumerate(FIELDS):
            o2, b2, _ = G.summarize(U, RPFX + f, set(), args=[tnew])
            ctx.ob("rate-accessor", "%s/%s" % (config, f), one(o2) == ps[i],
                   "%s(Rate::new(a, u, m, p)) = %s, expected argument %d" % (f, [T.show(x[2]) for x in o2], i), b2["span"])
    term, per = S.P(0, "term"), S.P(1, "per")
    outs, b, _ = G.summarize(U, RPFX + "from_qty_vals", set())
    want = rate_adt([S.amount(term), S.unit(term), S.amount(per), S.unit(per)])
    ctx.ob("rate-from-qty-vals", config, one(outs) == T.canon(want), "from_qty_vals(term, per) = %s" % [T.show(x[2]) for x in outs], b["span"])
    # 2. reciprocal swaps, and is an involution
    r = rate_adt(ps)
    outs, b, _ = G.summarize(U, RPFX + "reciprocal", set(), args=[r])
    rec = one(outs)
    ctx.ob("reciprocal", config, rec == rate_adt([ps[2], ps[3], ps[0], ps[1]]), "reciprocal(Rate{a,u,m,p}) = %s" % (T.show(rec) if rec else outs), b["span"])
    if rec is not None:
        outs2, _, _ = G.summarize(U, RPFX + "reciprocal", set(), args=[rec])
        ctx.ob("reciprocal-involution", config, one(outs2) == r, "reciprocal(reciprocal(r)) = %s" % [T.show(x[2]) for x in outs2], b["span"])
    # 3. Rate * PQ
    path = RATE_MUL
    outs, b, ev = G.summarize(U, path, set(), args=[r, S.P(1, "rhs")])
    t = one(outs)
    Dq = S.app(DIV, S.P(1, "rhs"), S.app("Unit::as_qty", ps[3]))
    want = S.new(S.R(("/", ("*", ps[0], Dq), ps[2])), ps[1])
    probs = list(S.compare_cases(outs, [], lambda val: ("val", want)))
    # the other direction of delegation: `rate * q` defined as `q * rate` of the per-quantity type — then every
    # quantity type's own `q * rate` (incl. the dimensionless amount's) carries the obligation, see per_type
    muls = [f for f in ev.calls_seen if f.get("trait") == "core::ops::arith::Mul"]
    if (probs and t is not None and len(ev.calls_seen) == 1 and len(muls) == 1 and t[0] == "app" and len(t[3]) == 2
            and t[3][0] == S.P(1, "rhs") and t[3][1] == T.canon(r) and len(muls[0]["args"]) == 2
            and model.ty_key(muls[0]["args"][0]).startswith("$") and model.ty_key(muls[0]["args"][1]).startswith("quantities::rate::Rate<")):
        ctx.ob("rate-mul-qty", config, True, "", b["span"])
        ctx.sample({"function": path, "summary": "delegates to `q * rate` of the per-quantity type: " + T.show(t)})
        return True
    ctx.ob("rate-mul-qty", config, not probs,
           "Rate{a,u,m,p} * q: %s — expected new(a * (q / as_qty(p)) / m, u) in every case; observed %s" % (
               probs[0][1] if probs else "", "; ".join("[%s] %s" % (T.show_guard(g), T.show(x)) for g, k, x in outs)), b["span"])
    ctx.sample({"function": path, "summary": T.show(t) if t else str(outs)})
    if t is not None and t[0] == "app" and t[1] == "Quantity::new":
        named_intermediates(ctx, "rate-intermediates", "%s/rate*q" % config, t[3][0], [Dq, ("/", Dq, ps[2]), ("*", ("/", Dq, ps[2]), ps[0])], b["span"])
    return False


def named_intermediates(ctx, rule, inst, result_term, named, where):
    """Every arithmetic node of a rate operation must be one of the magnitudes the property names — the like-quantity
    ratio, value / per value, and the result (as rational functions).  A node outside this set (e.g. the bare rate
    number term / per multiple) is a value no input or result magnitude bounds: in the fixed-point back-end its
    rounding to 18 fractional digits can wipe out most significant digits although operands and result are ordinary."""
    from . import magn
    bad = []
    for nd in magn.arith_nodes(result_term):
        try:
            if not any(ratfun.same_real_function(nd, x) for x in named):
                bad.append(T.show(nd))
        except Exception as e:   # not a rational function of the named atoms
            bad.append("%s (%s)" % (T.show(nd), e))
    ctx.ob(rule, inst, not bad,
           "intermediate value(s) %s are none of the magnitudes the operation is defined by (%s): their rounding is not bounded by the "
           "operands' and the result's magnitudes (decimal back-end: e.g. 1 / 3e12 keeps 6 significant digits)" % (bad[:3], "; ".join(T.show(x) for x in named)),
           where, nontrivial=False)


def per_type(ctx, config, w, delegated=False):
    U = w.U
    n = 0
    ps = [S.P(10 + i, "rhs." + f) for i, f in enumerate(FIELDS)]
    r = rate_adt(ps)
    q_ = S.P(0, "self")
    for q in w.qtypes:
        Q = q.path
        forms = {}
        for op, rhs_key, label in (("*", "quantities::rate::Rate<$G0,%s>" % Q, "q*rate"), ("/", "quantities::rate::Rate<%s,$G0>" % Q, "q/rate")):
            inst = "%s/%s/%s" % (config, Q, label)
            found = opforms.find_op(w, q.crate, op, Q, rhs_key)
            if q.kind == "dimless" and not found and (op == "/" or not delegated):
                continue     # optional for the dimensionless amount (served by the generic `rate * q`) unless that one delegates here
            if len(found) != 1:
                ctx.fail("rate-op", inst, "expected exactly one impl `%s %s %s`, found %d" % (Q, op, rhs_key, len(found)), q.span)
                continue
            imp = found[0][4]
            b = U.item_body(imp, opforms.OPFN[op])
            # a generated operator may delegate to Rate's own `rate * q` (checked generically above): look through it
            ev = T.Evaluator(U, keep_tags=False, inline={U.resolve_item(RATE_MUL) + "!"})
            try:
                outs = ev.summarize(b, args=[q_, r])
            except T.Unsupported as x:
                ctx.fail("rate-op", inst, "unsupported construct: " + x.what, x.sp or b["span"])
                continue
            outs = [(g, k, T.canon(x)) for (g, k, x) in outs]
            t = one(outs)
            if q.kind == "dimless":
                # one unit of scale one: the like-quantity ratio q / as_qty(ONE) is q itself (x / 1 = x exactly)
                # (written with the ratio spelled out — `q / as_qty(unit)`, the amount type's own division by 1 — it is
                # that node instead)
                spelled = ("/", q_, S.app("Unit::as_qty", ps[3] if op == "*" else ps[1]))
                Dq = spelled if t is not None and T.canon(spelled) in [T.canon(x) for x in __import__("qcheck.magn", fromlist=["x"]).arith_nodes(t)] else q_
                want = S.new(S.R(("*", ("/", Dq, ps[2]), ps[0])), ps[1]) if op == "*" else S.new(S.R(("*", ("/", Dq, ps[0]), ps[2])), ps[3])
                text = "new(q / per_unit_multiple * term_amount, term_unit)" if op == "*" else "new(q / term_amount * per_unit_multiple, per_unit)"
            elif op == "*":
                Dq = S.app(DIV, q_, S.app("Unit::as_qty", ps[3]))
                want = S.new(S.R(("*", ("/", Dq, ps[2]), ps[0])), ps[1])
                text = "new((q / as_qty(per_unit)) / per_unit_multiple * term_amount, term_unit)"
            else:
                Dq = S.app(DIV, q_, S.app("Unit::as_qty", ps[1]))
                want = S.new(S.R(("*", ("/", Dq, ps[0]), ps[2])), ps[3])
                text = "new((q / as_qty(term_unit)) / term_amount * per_unit_multiple, per_unit)"
            probs = list(S.compare_cases(outs, [], lambda val, want=want: ("val", want)))
            ctx.ob("rate-op", inst, not probs, "%s — expected %s in every case; observed %s" % (
                probs[0][1] if probs else "", text, "; ".join("[%s] %s" % (T.show_guard(g), T.show(x)) for g, k, x in outs)), b["span"])
            if t is not None and t[0] == "app" and t[1] == "Quantity::new":
                nm = [Dq, ("/", Dq, ps[2]), ("*", ("/", Dq, ps[2]), ps[0])] if op == "*" else [Dq, ("/", Dq, ps[0]), ("*", ("/", Dq, ps[0]), ps[2])]
                named_intermediates(ctx, "rate-intermediates", inst, t[3][0], nm, b["span"])
            # the like-quantity ratio used is Q / Q of this very type
            divs = [f for f in ev.calls_seen if f.get("trait") == "core::ops::arith::Div" and model.ty_key(f["args"][0]) == Q]
            deleg = [f for f in ev.calls_seen if (f.get("resolved") or {}).get("path") == U.resolve_item(RATE_MUL) and len(f["args"]) == 2 and model.ty_key(f["args"][1]) == Q]
            gen_divs = [f for f in ev.calls_seen if f.get("trait") == "core::ops::arith::Div" and model.ty_key(f["args"][0]).startswith("$")]
            if q.kind == "dimless":
                forms[op] = (t if not probs else None, b, imp) if t is not None else (None, b, imp)
                n += 1
                continue
            ctx.ob("rate-op-ratio", inst, (len(divs) == 1 and model.ty_key(divs[0]["args"][1]) == Q and not deleg)
                   or (not divs and len(deleg) == 1 and len(gen_divs) == 1 and model.ty_key(gen_divs[0]["args"][1]) == model.ty_key(gen_divs[0]["args"][0])),
                   "the like-quantity ratio is not `%s / %s`" % (Q, Q), b["span"], nontrivial=False)
            forms[op] = (t if not probs else None, b, imp) if t is not None else (None, b, imp)
            n += 1
        # 6. q / r == q * reciprocal(r) as rational functions
        if "*" in forms and "/" in forms and forms["/"][0] is not None:
            inst = "%s/%s/div-is-mul-by-reciprocal" % (config, Q)
            rec = rate_adt([ps[2], ps[3], ps[0], ps[1]])
            ev = T.Evaluator(U, keep_tags=False, inline={U.resolve_item(RATE_MUL) + "!"})
            try:
                outs = ev.summarize(U.item_body(forms["*"][2], "mul"), args=[q_, rec])
                tm = one(outs)
            except T.Unsupported as x:
                tm = None
            td = forms["/"][0]
            ok = (tm is not None and tm[0] == "app" and td[0] == "app" and tm[1] == td[1] == "Quantity::new" and tm[3][1] == td[3][1]
                  and ratfun.same_real_function(tm[3][0], td[3][0]))
            ctx.ob("div-is-mul-by-reciprocal", inst, ok, "q / r = %s but q * reciprocal(r) = %s" % (T.show(td), T.show(tm) if tm else "?"), forms["/"][1]["span"])
    return n


def borrowed_rate_forms(ctx, config, w):
    """Borrowed-operand variants of the rate operators (`&rate * q`, `q * &rate`, `q / &rate`, ...), should the tree
    have any, must forward to the by-value operator of the same operand types with the operands dereferenced in order."""
    U = w.U
    n = 0
    sym = {"*": ("core::ops::arith::Mul", "mul"), "/": ("core::ops::arith::Div", "div")}
    for c in w.crates:
        if c.is_test:
            continue
        for (op, s_, r_, o, imp) in U.op_impls(c):
            ss, rs = s_.lstrip("&"), r_.lstrip("&")
            if op not in sym or (s_, r_) == (ss, rs) or not (ss.startswith("quantities::rate::Rate<") or rs.startswith("quantities::rate::Rate<")):
                continue
            tr, fn = sym[op]
            inst = "%s/%s %s %s" % (config, s_, op, r_)
            b = U.item_body(imp, fn)
            ok, why = False, "no body"
            if b is not None:
                ev = T.Evaluator(U, keep_tags=False, max_depth=0)
                try:
                    outs = ev.summarize(b)
                    t = one([(g, k, T.canon(x)) for g, k, x in outs])
                    calls = [f for f in ev.calls_seen if f.get("trait") == tr]
                    tys = model.alpha([model.ty_key(a) for a in calls[0]["args"]]) if len(calls) == 1 else None
                    ok = (t is not None and t[0] == "app" and len(ev.calls_seen) == 1 and len(calls) == 1
                          and ((t[3] == (S.P(0, "self"), S.P(1, "rhs")) and tys == model.alpha([ss, rs]))
                               # `rate * q` written as `q * rate` (the direction the by-value operator may delegate in, too)
                               or (op == "*" and ss.startswith("quantities::rate::Rate<") and t[3] == (S.P(1, "rhs"), S.P(0, "self")) and tys == model.alpha([rs, ss]))))
                    why = "body is %s" % (T.show(t) if t else outs)
                except T.Unsupported as x:
                    why = "unsupported construct: " + x.what
            ctx.ob("rate-ref-form", inst, ok, "borrowed rate operator does not forward to the by-value operator: %s" % why, (b or imp)["span"], nontrivial=False)
            n += 1
    return n


def run(ctx):
    for config in ("f64-all", "dec-all") + (("f64-nostd", "dec-nostd") if ctx.tier == "thorough" else ()):
        w = ws.load(config)
        ctx.configs.append(config)
        delegated = generic_rules(ctx, config, w.U)
        n = per_type(ctx, config, w, delegated)
        borrowed_rate_forms(ctx, config, w)
        ctx.floor("%s: generated rate operators" % config, n, 2 * {"f64-all": 18, "dec-all": 14}.get(config, 14))
    ctx.rule_text = "record axioms of Rate, reciprocal swap + involution by composition, value-flow forms of Rate*q (generic) and q*Rate, q/Rate per quantity type, q/r == q*reciprocal(r)"
    ctx.trusted = ["rustc THIR construction and resolution", "the like-quantity ratio q / as_qty(u) is C03 (reference-unit types) / C10 (others)", "Unit::as_qty is C09"]
    ctx.assumptions = ["size of the rounding error not decided"]
    ctx.explanation = ("Rate is a four-field record (axioms by composition of the extracted bodies); reciprocal swaps the pairs and is an involution by rewriting; the three "
                       "operator forms are compared as rational functions over the uninterpreted like-quantity ratio, unit slots exactly; division by a rate equals "
                       "multiplication by its reciprocal after substitution.")
