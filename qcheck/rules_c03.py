"""C03 — sum, difference and ratio of like quantities honour units."""
from . import generic as G, model, opforms, spec as S, term as T, ws

a_, b_ = S.P(0, "self"), S.P(1, "rhs")


def run_config(ctx, config):
    w = ws.load(config)
    U = w.U
    ctx.configs.append(config)
    A, B = S.amount(a_), S.amount(b_)
    ua, ub = S.unit(a_), S.unit(b_)
    sa, sb = S.scale(ua), S.scale(ub)
    same = T.canon(("==", ua, ub))
    conv_b = ("/", ("*", B, sb), sa)          # b expressed in a's unit
    G.check_spec(ctx, "add", config, U, G.HRU + "add", G.INL_CONV, [same],
                 lambda val: ("val", S.new(("+", A, B), ua)) if val(same) else ("val", S.new(S.R(("+", A, conv_b)), ua)))
    G.check_spec(ctx, "sub", config, U, G.HRU + "sub", G.INL_CONV, [same],
                 lambda val: ("val", S.new(("-", A, B), ua)) if val(same) else ("val", S.new(S.R(("-", A, conv_b)), ua)))
    G.check_spec(ctx, "div", config, U, G.HRU + "div", G.INL_CONV, [same],
                 lambda val: ("val", ("/", A, B)) if val(same) else ("val", S.R(("/", ("*", A, sa), ("*", B, sb)))))
    amt = ws.amount_type(config)
    n = 0
    G.unit_identity(ctx, config, w)
    for q in w.qtypes:
        if q.kind != "ref":
            continue
        for op, fn in (("+", "add"), ("-", "sub"), ("/", "div")):
            inst = "%s/%s/%s" % (config, q.path, fn)
            found = opforms.find_op(w, q.crate, op, q.path, q.path)
            if len(found) != 1:
                ctx.fail("forwarder", inst, "expected exactly one impl of `%s %s %s`, found %d" % (q.name, op, q.name, len(found)), q.span)
                continue
            (_o, _s, _r, out, imp) = found[0]
            want_out = amt if op == "/" else q.path
            ctx.ob("output-type", inst, out == want_out, "Output of `%s %s %s` is %s, expected %s" % (q.name, op, q.name, out, want_out), imp["span"])
            want = ("app", "HasRefUnit::" + fn, q.path, (a_, b_))
            opforms.body_form(ctx, "forwarder", inst, U, imp, fn, want)
            n += 1
        opforms.assign_ops(ctx, "assign-through-operator", config, w, q)
    ctx.floor("%s: Add/Sub/Div<Self> forwarders" % config, n, 3 * {"f64-all": 23, "dec-all": 19}.get(config, 13))
    from . import ovequiv
    for trait, allowed, label, rel in ((model.T_HRU, {"REF_UNIT"}, "HasRefUnit", {"add", "sub", "div", "equiv_amount"}),
                                       (model.T_LSU, {"REF_UNIT", "scale"}, "LinearScaledUnit", {"ratio"})):
        for tk, (extra, imp) in G.overrides(ctx, "override", U, trait, allowed, label).items():
            extra = [x for x in extra if x in rel]
            if extra:
                extra = ovequiv.filter_equivalent(ctx, "override", config, w, label, tk, extra, imp)
            if extra:
                ctx.fail("override", "%s/%s" % (config, tk), "impl %s for %s overrides %s with something other than the default specialised to this type"
                         % (label, tk, extra) + ovequiv.reasons(ctx, config, tk, label, extra), imp["span"])


def decimal_accuracy(ctx, config):
    """Decimal back-end: for every reference-unit type, ordered unit pair and
    operator the evaluated term, with the amount-free sub-trees folded as fpdec
    computes them, must carry the exact coefficients (a: 1, b: s_b/s_a for
    + and -; s_a/s_b for /) to 1e-18 relative, absolute rounding <= 2e-18."""
    from fractions import Fraction
    from . import accuracy as A
    w = ws.load(config)
    U = w.U
    n = 0
    for fn in ("add", "sub", "div"):
        outs, b, _ = G.summarize(U, G.HRU + fn, G.INL_CONV)
        p1 = S.P(1, b["params"][1]["pat"]["name"])
        ua, ub = T.canon(S.unit(a_)), T.canon(S.unit(p1))
        sa, sb = T.canon(S.scale(ua)), T.canon(S.scale(ub))
        amounts = [T.canon(S.amount(a_)), T.canon(S.amount(p1))]
        for q in w.qtypes:
            if q.kind != "ref" or "scale" not in q.tables:
                continue
            rows = [(v, q.tables["scale"][v][1]) for v in q.variants_const]
            for (u, su) in rows:
                for (v, sv) in rows:
                    if u == v:
                        continue
                    inst = "%s/%s/%s/%s,%s" % (config, fn, q.path, u, v)
                    try:
                        k, t = A.select(outs, {sa: su, sb: sv}, {ua: u, ub: v})
                        if k != "val":
                            raise A.Unsupported("diverges for a reference-unit type")
                        if t[0] == "app" and t[1] == "Quantity::new":
                            t = t[3][0]
                        rel, err = A.worst(A.analyse_poly(t, {sa: su, sb: sv}, amounts))
                    except A.Overflow as x:
                        ctx.ob("decimal-accuracy", inst, False, "%s of %s with units (%s, %s) panics in the decimal back-end for every amount: %s" % (fn, q.path, u, v, x), b["span"], nontrivial=False)
                        continue
                    except A.Unsupported as x:
                        ctx.fail("decimal-accuracy", inst, "cannot analyse the term: %s" % x, b["span"])
                        continue
                    n += 1
                    ctx.ob("decimal-accuracy", inst, rel <= A.COEF_TOL and (err is None or err <= 2 * A.ABS_TOL),
                           "%s of %s with units (%s, %s): the evaluated term %s carries a coefficient off by %.3g relative (allowed %.1g; absolute rounding %s) "
                           "— far beyond the rounding of the amount type" % (fn, q.path, u, v, T.show(t)[:160], float(rel), float(A.COEF_TOL),
                                                                             "n/a" if err is None else "%.3g" % float(err)),
                           b["span"], nontrivial=False)
    ctx.floor("%s: (operator, type, ordered unit pair) cases with analysed decimal accuracy" % config, n, 3000)


def run(ctx):
    for config in ("f64-all", "dec-all") + (("f64-nostd", "dec-nostd") if ctx.tier == "thorough" else ()):
        run_config(ctx, config)
    decimal_accuracy(ctx, "dec-all")
    ctx.rule_text = "3 generic value-flow obligations per configuration (2 guard cases each) + one forwarder and one output-type obligation per reference-unit type and operator"
    ctx.trusted = ["rustc THIR construction and trait resolution", "IEEE-754 / fpdec arithmetic per node"]
    ctx.assumptions = ["size of the rounding error not decided (mixed-unit path: 3 operations; same-unit path: the bare operation)"]
    ctx.explanation = ("HasRefUnit::add/sub/div summarised with equiv_amount and ratio inlined: result unit slot is exactly the left operand's unit, the "
                       "amount is a ± b·s_b/s_a (resp. (a·s_a)/(b·s_b)) as a rational function, and the bare operation under equal units; every generated "
                       "Add/Sub/Div<Self> impl forwards its operands in order to these bodies.")
