"""Fact extraction (Engine A runner) and loading.

Every call reflects /repo's *current working tree*: the cache key is the
SHA-256 of every file cargo could read (all files under /repo except target/
and .git/), the driver binary and the configuration.  A cached extraction is
reused only on an identical key.
"""
import fcntl
import glob
import hashlib
import json
import marshal
import os
import shutil
import subprocess
import sys
import time
import uuid

VERIF = os.path.dirname(os.path.dirname(os.path.abspath(__file__)))
REPO = os.environ.get("QV_REPO", "/repo")
CACHE = os.path.join(VERIF, ".cache")
DRIVER = os.path.join(VERIF, "engines", "qfacts", "target", "release", "qfacts")
DECLSCAN = os.path.join(VERIF, "engines", "declscan", "target", "release", "declscan")

MEMBERS = ["quantities", "qty-macros", "astronomical-quantities"]

KNOWN_Q = ["mass", "length", "duration", "area", "volume", "speed",
           "acceleration", "force", "energy", "power", "frequency",
           "datavolume", "datathroughput", "temperature"]


def quantity_features():
    """The predefined-quantity features of the CURRENT tree: cargo features f with `#[cfg(feature = "f")] pub mod f;` in
    src/lib.rs and a module file src/f.rs.  The 14 features of the pinned tree come first (in their fixed order), features
    added later follow; a pinned feature that disappeared is still listed (its checks then fail, as they must)."""
    import re
    found = []
    try:
        cargo = open(os.path.join(REPO, "Cargo.toml")).read()
        lib = open(os.path.join(REPO, "src", "lib.rs")).read()
        m = re.search(r"^\[features\]\s*$(.*?)(?=^\[|\Z)", cargo, re.S | re.M)
        feats = re.findall(r"^\s*([A-Za-z0-9_-]+)\s*=", m.group(1), re.M) if m else []
        for f in feats:
            if re.search(r'#\[cfg\(feature\s*=\s*"%s"\)\]\s*pub\s+mod\s+%s\s*;' % (re.escape(f), re.escape(f)), lib) and \
                    os.path.exists(os.path.join(REPO, "src", f + ".rs")):
                found.append(f)
    except OSError:
        pass
    return KNOWN_Q + [f for f in found if f not in KNOWN_Q]


ALL_Q = quantity_features()


def all_features():
    """Every feature named in [features] of the current Cargo.toml (optional dependencies used as features included)."""
    import re
    try:
        cargo = open(os.path.join(REPO, "Cargo.toml")).read()
    except OSError:
        return []
    m = re.search(r"^\[features\]\s*$(.*?)(?=^\[|\Z)", cargo, re.S | re.M)
    feats = re.findall(r"^\s*([A-Za-z0-9_-]+)\s*=", m.group(1), re.M) if m else []
    for f in ("fpdec", "serde"):
        if f not in feats:
            feats.append(f)
    return feats


def f64_all_features():
    """`doc` plus every other feature except the amount back-end switch, serde and default: the "all" configuration
    must contain every additive feature, also ones added after the pinned tree (their effect on existing bodies is
    then visible to the additivity rule of C19)."""
    fs = [f for f in all_features() if f not in ("fpdec", "serde", "default")]
    if "doc" not in fs:
        fs = ["doc"] + fs
    return " ".join(fs)


# name -> cargo arguments (all offline, nightly + wrapper)
CONFIGS = {
    "f64-all": ["--workspace", "--features", f64_all_features(), "--lib", "--tests"],
    "dec-all": ["-p", "quantities", "--features", f64_all_features() + " fpdec serde", "--lib", "--tests"],
    "f64-serde": ["-p", "quantities", "--features", f64_all_features() + " serde", "--lib"],
    "dec-noserde": ["-p", "quantities", "--features", f64_all_features() + " fpdec", "--lib"],
    "f64-nostd": ["-p", "quantities", "--no-default-features", "--features", " ".join(f for f in f64_all_features().split() if f != "std"), "--lib"],
    "dec-nostd": ["-p", "quantities", "--no-default-features", "--features", " ".join(f for f in f64_all_features().split() if f != "std") + " fpdec", "--lib"],
    "none": ["-p", "quantities", "--no-default-features", "--lib"],
    "dec-none": ["-p", "quantities", "--no-default-features", "--features", "fpdec", "--lib"],
}
for _f in ALL_Q:
    CONFIGS["single-" + _f] = ["-p", "quantities", "--no-default-features", "--features", _f, "--lib"]


def sysroot():
    return subprocess.check_output(["rustc", "+nightly", "--print", "sysroot"], text=True).strip()


def repo_hash():
    h = hashlib.sha256()
    files = []
    for root, dirs, fs in os.walk(REPO):
        dirs[:] = sorted(d for d in dirs if d not in ("target", ".git"))
        for f in sorted(fs):
            files.append(os.path.join(root, f))
    for p in sorted(files):
        try:
            with open(p, "rb") as fh:
                data = fh.read()
        except OSError:
            continue
        h.update(os.path.relpath(p, REPO).encode())
        h.update(b"\0")
        h.update(hashlib.sha256(data).digest())
    try:
        with open(DRIVER, "rb") as fh:
            h.update(hashlib.sha256(fh.read()).digest())
    except OSError:
        pass
    return h.hexdigest()[:24]


_RH = None


def cur_hash():
    global _RH
    if _RH is None:
        _RH = repo_hash()
    return _RH


class ExtractionError(Exception):
    def __init__(self, config, log):
        super().__init__("fact extraction failed for configuration %s" % config)
        self.config = config
        self.log = log


def extract(config):
    """Returns the directory holding the fact files of `config` for the
    current tree, running the driver if needed."""
    os.makedirs(os.path.join(CACHE, "facts"), exist_ok=True)
    rtag = hashlib.sha256(os.path.abspath(REPO).encode()).hexdigest()[:6]
    ahash = hashlib.sha256(" ".join(CONFIGS[config]).encode()).hexdigest()[:6]
    key = "%s-%s-%s%s" % (config, rtag, cur_hash(), ahash)
    out = os.path.join(CACHE, "facts", key)
    lockp = os.path.join(CACHE, "facts", config + ".lock")
    with open(lockp, "w") as lf:
        fcntl.flock(lf, fcntl.LOCK_EX)
        if os.path.exists(os.path.join(out, "DONE")):
            return out
        if os.path.exists(out):
            shutil.rmtree(out)
        os.makedirs(out)
        tgt = os.path.join(CACHE, "tgt", config)
        os.makedirs(tgt, exist_ok=True)
        # force the workspace members through the driver (cargo's freshness
        # cache would otherwise skip it and replay old output)
        for fp in glob.glob(os.path.join(tgt, "debug", ".fingerprint", "*")):
            b = os.path.basename(fp)
            if any(b.startswith(m + "-") for m in MEMBERS):
                shutil.rmtree(fp, ignore_errors=True)
        nonce = uuid.uuid4().hex
        env = dict(os.environ)
        env.update({
            "LD_LIBRARY_PATH": sysroot() + "/lib",
            "RUSTFLAGS": "-Zmir-opt-level=0 -Awarnings",
            "RUSTC_WORKSPACE_WRAPPER": DRIVER,
            "QFACTS_OUT": out,
            "QFACTS_NONCE": nonce,
            "QFACTS_CONFIG": config,
            "CARGO_TARGET_DIR": tgt,
            "CARGO_NET_OFFLINE": "true",
            "CARGO_INCREMENTAL": "0",
        })
        cmd = ["cargo", "+nightly", "check", "--offline", "-q"] + CONFIGS[config]
        t0 = time.time()
        p = subprocess.run(cmd, cwd=REPO, env=env, stdout=subprocess.PIPE,
                           stderr=subprocess.STDOUT, text=True)
        if p.returncode != 0:
            log = os.path.join(out, "cargo.log")
            with open(log, "w") as fh:
                fh.write(p.stdout)
            raise ExtractionError(config, p.stdout)
        files = glob.glob(os.path.join(out, "*.json"))
        if not files:
            raise ExtractionError(config, "no fact files written (driver not run?)\n" + p.stdout)
        with open(os.path.join(out, "DONE"), "w") as fh:
            json.dump({"nonce": nonce, "config": config, "wall_s": time.time() - t0,
                       "files": sorted(os.path.basename(f) for f in files)}, fh)
        # garbage-collect older extractions of this config
        for old in glob.glob(os.path.join(CACHE, "facts", "%s-%s-*" % (config, rtag))):
            if old != out and os.path.isdir(old):
                shutil.rmtree(old, ignore_errors=True)
        return out


class Crate:
    def __init__(self, d, fname):
        self.d = d
        self.file = fname
        self.name = d["crate"]
        self.is_test = d["is_test"]
        self.features = d["features"]
        self.adts = d["adts"]
        self.traits = d["traits"]
        self.impls = d["impls"]
        self.consts = d["consts"]
        self.fns = d["fns"]
        self.bodies = {}
        for b in d["bodies"]:
            self.bodies.setdefault(b["def"], b)
        self.body_list = d["bodies"]
        self.mir = {m["def"]: m for m in d["mir"]}
        self.fmt_templates = d["fmt_templates"]
        self.impl_by_index = {i["index"]: i for i in self.impls}
        self.adt_by_path = {a["path"]: a for a in self.adts}


LIB_CRATES = ("quantities", "qty_macros", "astronomical_quantities")

# Items the rules name by path.  Their *definition* path changes when the item is moved into a private module and
# re-exported (`mod one; pub use one::One;`) although every public path stays valid; facts are normalised to the
# canonical path below so that such a move is invisible to the rules.
CANON = {
    "adts": {"One": "quantities::One", "SIPrefix": "quantities::si_prefixes::SIPrefix", "Rate": "quantities::rate::Rate",
             "ConversionTable": "quantities::converter::ConversionTable"},
    "traits": {"Quantity": "quantities::Quantity", "Unit": "quantities::Unit", "LinearScaledUnit": "quantities::LinearScaledUnit",
               "HasRefUnit": "quantities::HasRefUnit", "Converter": "quantities::converter::Converter"},
}


class FactSet:
    """All crates of one configuration (fact files are parsed lazily)."""

    def __init__(self, config):
        self.config = config
        self.dir = extract(config)
        self.meta = json.load(open(os.path.join(self.dir, "DONE")))
        self.files = []
        for f in self.meta["files"]:
            stem = f.rsplit("-", 1)[0]
            is_test = stem.endswith("-test")
            name = stem[:-5] if is_test else stem
            self.files.append((name, is_test, f))
        self._loaded = {}
        self._crates = []
        self._moves = None

    def moves(self):
        """[(actual definition path, canonical path)] for the named items of the `quantities` crate that were moved."""
        if self._moves is None:
            self._moves = []
            for (name, is_test, f) in self.files:
                if name == "quantities" and not is_test:
                    d = json.load(open(os.path.join(self.dir, f)))
                    for kind, table in CANON.items():
                        for it in d.get(kind, []):
                            nm = it["path"].rsplit("::", 1)[-1]
                            if nm in table and it["path"] != table[nm] and it["path"].startswith("quantities::"):
                                others = [x for x in d.get(kind, []) if x["path"].rsplit("::", 1)[-1] == nm]
                                if len(others) == 1:
                                    self._moves.append((it["path"], table[nm]))
                    break
        return self._moves

    def _load(self, f):
        if f in self._loaded:
            return self._loaded[f]
        pk = os.path.join(self.dir, f + ".marshal")
        d = None
        if os.path.exists(pk):
            try:
                with open(pk, "rb") as fh:
                    d = marshal.load(fh)
            except Exception:
                d = None
        if d is None:
            raw = open(os.path.join(self.dir, f)).read()
            mv = self.moves()
            if mv:
                import re
                for actual, canon in mv:
                    raw = re.sub(re.escape(actual) + r"(?![A-Za-z0-9_])", canon, raw)
            d = json.loads(raw)
            try:
                tmp = pk + ".%d" % os.getpid()
                with open(tmp, "wb") as fh:
                    marshal.dump(d, fh)
                os.replace(tmp, pk)
            except Exception:
                pass
        if d.get("nonce") != self.meta["nonce"] or d.get("config") != self.config:
            raise ExtractionError(self.config, "stale fact file " + f)
        c = Crate(d, f)
        c.src = d.get("src", "")
        dup = [o for o in self._crates if o.name == c.name and o.is_test == c.is_test and o.src == c.src]
        if dup:
            c = dup[0]  # e.g. the proc-macro crate built and checked
        else:
            self._crates.append(c)
        self._loaded[f] = c
        return c

    def select(self, pred):
        """Crates whose (name, is_test) satisfies pred."""
        res = []
        for (name, is_test, f) in self.files:
            if pred(name, is_test):
                c = self._load(f)
                if c not in res:
                    res.append(c)
        return res

    @property
    def crates(self):
        return self.select(lambda n, t: True)

    def get(self, name, is_test=False, src=None):
        r = [c for c in self.select(lambda n, t: n == name and t == is_test)
             if src is None or c.src.endswith(src)]
        if len(r) != 1:
            raise KeyError("crate %s (test=%s) found %d times in %s" % (name, is_test, len(r), self.config))
        return r[0]

    def find(self, name, is_test=False):
        return self.select(lambda n, t: n == name and t == is_test)


_FS = {}


def factset(config):
    if config not in _FS:
        _FS[config] = FactSet(config)
    return _FS[config]


if __name__ == "__main__":
    for c in sys.argv[1:]:
        t = time.time()
        fs = factset(c)
        print(c, fs.dir, [(x.name, x.is_test, len(x.body_list)) for x in fs.crates], "%.1fs" % (time.time() - t))
