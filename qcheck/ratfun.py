"""Rational-function normal form over opaque leaves (exact, Fractions).

A term built from + - * / neg and numeric constants is expanded to a quotient
of two integer-coefficient polynomials in the remaining (non-arithmetic)
sub-terms.  Two terms denote the same real function iff n1*d2 == n2*d1.
"""
from fractions import Fraction

from . import term as T


class Poly:
    __slots__ = ("m",)

    def __init__(self, m=None):
        self.m = {k: v for k, v in (m or {}).items() if v != 0}

    @staticmethod
    def const(c):
        return Poly({(): Fraction(c)})

    @staticmethod
    def var(name):
        return Poly({((name, 1),): Fraction(1)})

    def __add__(self, o):
        r = dict(self.m)
        for k, v in o.m.items():
            r[k] = r.get(k, 0) + v
        return Poly(r)

    def __neg__(self):
        return Poly({k: -v for k, v in self.m.items()})

    def __sub__(self, o):
        return self + (-o)

    def __mul__(self, o):
        r = {}
        for k1, v1 in self.m.items():
            for k2, v2 in o.m.items():
                d = dict(k1)
                for n, e in k2:
                    d[n] = d.get(n, 0) + e
                k = tuple(sorted(d.items()))
                r[k] = r.get(k, 0) + v1 * v2
        return Poly(r)

    def __eq__(self, o):
        return self.m == o.m

    def is_zero(self):
        return not self.m

    def __repr__(self):
        return "Poly(%r)" % self.m


class Rat:
    __slots__ = ("n", "d")

    def __init__(self, n, d=None):
        self.n = n
        self.d = d if d is not None else Poly.const(1)

    def __add__(self, o):
        return Rat(self.n * o.d + o.n * self.d, self.d * o.d)

    def __sub__(self, o):
        return Rat(self.n * o.d - o.n * self.d, self.d * o.d)

    def __mul__(self, o):
        return Rat(self.n * o.n, self.d * o.d)

    def __truediv__(self, o):
        return Rat(self.n * o.d, self.d * o.n)

    def __neg__(self):
        return Rat(-self.n, self.d)

    def same(self, o):
        if self.d.is_zero() or o.d.is_zero():
            return False
        return self.n * o.d == o.n * self.d


def ratfun(t, leaves=None):
    """Rat for a term; `leaves` collects the opaque leaf terms."""
    t = T.canon(t)
    h = t[0]
    if h == "num":
        return Rat(Poly.const(t[1]))
    if h in ("+", "-", "*", "/"):
        a = ratfun(t[1], leaves)
        b = ratfun(t[2], leaves)
        return {"+": a.__add__, "-": a.__sub__, "*": a.__mul__, "/": a.__truediv__}[h](b)
    if h == "neg":
        return -ratfun(t[1], leaves)
    key = repr(t)
    if leaves is not None:
        leaves[key] = t
    return Rat(Poly.var(key))


def same_real_function(a, b):
    return ratfun(a).same(ratfun(b))


def count_roundings(t):
    """Number of arithmetic operations on the amount type in a term (each is
    one rounding in f64 / one fpdec operation)."""
    if not isinstance(t, tuple):
        return 0
    h = t[0]
    if h in ("p", "num", "str", "bool", "unit", "variant", "none", "const", "panic", "closure", "bytes", "opaque_lit", "fnref", "cv"):
        return 0
    if h == "app":
        return sum(count_roundings(x) for x in t[3])
    if h == "adt":
        return sum(count_roundings(x) for _n, x in t[3])
    if h in ("tuple", "array"):
        return sum(count_roundings(x) for x in t[1])
    n = 1 if h in ("+", "-", "*", "/") else 0
    return n + sum(count_roundings(x) for x in t[1:] if isinstance(x, tuple))


def has_arith(t):
    return count_roundings(t) > 0
