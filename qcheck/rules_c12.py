"""C12 — malformed quantity definitions are rejected at compile time.

Compile-fail witnesses: every defect class applied to three base definitions,
each with a compiling twin (the base itself), plus the repository's own
tests/ui programs.  Only rustc's verdict is used; nothing is executed."""
import glob
import os
import re

from . import facts, witness

PRE = "use quantities::prelude::*;\n\n"
MAIN = "\nfn main() {}\n"

B1 = ['#[quantity]',
      '#[ref_unit(Meter, "m", NONE, "reference unit")]',
      '#[unit(Kilometer, "km", KILO, 1000, "1000·m")]',
      '#[unit(Inch, "in", 0.0254)]',
      '/// a length',
      'struct Len {}']
B2 = ['#[quantity]',
      '#[unit(Kelvin, "K", "kelvin")]',
      '#[unit(Celsius, "°C")]',
      'struct Temp {}']
B3_PRE = ['#[quantity]', '#[ref_unit(Flop, "f", NONE)]', '#[unit(Kiloflop, "kf", KILO, 1000.)]', 'struct Foo {}', '',
          '#[quantity]', '#[ref_unit(Emil, "e")]', '#[unit(Milliemil, "me", 0.001)]', 'struct Bar {}', '']
B3 = ['#[quantity(Foo * Bar)]',
      '#[ref_unit(Bazoo, "b", NONE)]',
      '#[unit(Millibazoo, "mb", MILLI, 0.001)]',
      'struct Baz {}']


def sub(lines, idx, new):
    r = list(lines)
    if new is None:
        del r[idx]
    elif isinstance(new, list):
        r[idx:idx + 1] = new
    else:
        r[idx] = new
    return r


def variant_bases(rnd):
    """Randomly generated well-formed base definitions with the same line
    layout as B1 / B2 / B3 (so every defect class applies unchanged)."""
    syms = ["x", "µx", "x²", "x/s", "°x", "xx"]
    pre = rnd.choice(["NONE", "KILO", "MILLI"])
    n_extra = rnd.randint(0, 3)
    extra = " ".join('#[unit(Extra%d, "e%d", %s)]' % (i, i, rnd.choice(["10", "0.5", "1e3", "12.5", "1_000"])) for i in range(n_extra))
    b1 = ['#[quantity]',
          '#[ref_unit(Base_Unit, "%s", %s, "reference unit")]' % (rnd.choice(syms), pre),
          ('#[unit(Big_One, "B1", %s)] ' % rnd.choice(["1000", "1000.", "1e3"])) + extra,
          '#[unit(Inch, "in", 0.0254)]',
          '/// generated base %d' % rnd.randint(0, 999),
          'struct Len {}']
    n2 = rnd.randint(0, 2)
    b2 = ['#[quantity]',
          '#[unit(Kelvin, "K", "kelvin")] ' + " ".join('#[unit(More%d, "m%d")]' % (i, i) for i in range(n2)),
          '#[unit(Celsius, "°C")]',
          'struct Temp {}']
    b3_pre = ['#[quantity]', '#[ref_unit(Flop, "f", NONE)]', '#[unit(Kiloflop, "kf", KILO, %s)]' % rnd.choice(["1000.", "1e3", "1000"]), 'struct Foo {}', '',
              '#[quantity]', '#[ref_unit(Emil, "e")]', '#[unit(Milliemil, "me", %s)]' % rnd.choice(["0.001", "1e-3"]), 'struct Bar {}', '']
    b3 = ['#[quantity(Foo %s Bar)]' % rnd.choice(["*", "/"]),
          '#[ref_unit(Bazoo, "b", NONE)]',
          '#[unit(Millibazoo, "mb", MILLI, 0.001)]',
          'struct Baz {}']
    return b1, b2, b3_pre, b3


def programs(bases=None, prefix=""):
    """[(name, source, (first, last) line range of the offending definition or None, expect_fail, defect class)]"""
    progs = []
    B1, B2, B3_PRE, B3 = bases if bases else (globals()["B1"], globals()["B2"], globals()["B3_PRE"], globals()["B3"])

    def emit(name, pre, d, fail, cls, _interleave=True):
        head = PRE.splitlines() + [""]
        lines = head + pre
        first = len(lines) + 1
        lines = lines + d
        last = len(lines)
        progs.append((prefix + name, "\n".join(lines) + MAIN, (first, last), fail, cls))
        # the same definition with documentation / lint attributes BETWEEN the unit attributes: where an attribute
        # stands must not decide whether it is validated
        units = [i for i, l in enumerate(d) if l.lstrip().startswith(("#[unit", "#[ref_unit"))]
        if _interleave and len(units) >= 2:
            d2 = []
            for i, l in enumerate(d):
                if i in units[1:]:
                    d2.append("/// interleaved documentation" if (i % 2) else "#[allow(dead_code)]")
                d2.append(l)
            emit("il_" + name, pre, d2, fail, cls + " (unit attributes interleaved with other attributes)", _interleave=False)
    # compiling twins
    emit("ok_b1", [], B1, False, "twin")
    emit("ok_b2", [], B2, False, "twin")
    emit("ok_b3", B3_PRE, B3, False, "twin")
    emit("ok_b3_div", B3_PRE, sub(B3, 0, "#[quantity(Foo / Bar)]"), False, "twin")
    # --- defects on the reference-unit base --------------------------------
    emit("b1_no_unit", [], [B1[0], B1[1], B1[4], B1[5]], True, "no unit")
    emit("b1_two_ref_units", [], sub(B1, 2, ['#[ref_unit(Kilometer, "km", KILO)]']), True, "more than one reference unit")
    emit("b1_scale_on_ref_unit", [], sub(B1, 1, '#[ref_unit(Meter, "m", NONE, 1.0)]'), True, "scale on the reference unit")
    emit("b1_unit_without_scale", [], sub(B1, 3, '#[unit(Inch, "in")]'), True, "unit without scale next to a reference unit")
    emit("b1_unit_one_arg", [], sub(B1, 3, '#[unit(Inch)]'), True, "wrong number of arguments")
    emit("b1_unit_six_args", [], sub(B1, 3, '#[unit(Inch, "in", NONE, 0.0254, "doc", "extra")]'), True, "wrong number of arguments")
    emit("b1_ref_unit_one_arg", [], sub(B1, 1, '#[ref_unit(Meter)]'), True, "wrong number of arguments")
    emit("b1_ref_unit_five_args", [], sub(B1, 1, '#[ref_unit(Meter, "m", NONE, "doc", "extra")]'), True, "wrong number of arguments")
    emit("b1_symbol_not_string", [], sub(B1, 3, '#[unit(Inch, inch, 0.0254)]'), True, "wrong kind of argument")
    emit("b1_scale_is_string", [], sub(B1, 3, '#[unit(Inch, "in", NONE, "0.0254")]'), True, "wrong kind of argument")
    emit("b1_prefix_is_literal", [], sub(B1, 3, '#[unit(Inch, "in", 5, 0.0254)]'), True, "wrong kind of argument")
    emit("b1_ident_is_string", [], sub(B1, 3, '#[unit("Inch", "in", 0.0254)]'), True, "wrong kind of argument")
    emit("b1_named_field", [], sub(B1, 5, 'struct Len { x: i32 }'), True, "struct fields")
    emit("b1_tuple_field", [], sub(B1, 5, 'struct Len(i32);'), True, "struct fields")
    emit("b1_generic", [], sub(B1, 5, 'struct Len<T> {}'), True, "generic parameters")
    emit("b1_generic_lifetime", [], sub(B1, 5, "struct Len<'a> {}"), True, "generic parameters")
    emit("b1_generic_const", [], sub(B1, 5, 'struct Len<const N: usize> {}'), True, "generic parameters")
    emit("b1_generic_mixed", [], sub(B1, 5, "struct Len<'a, T, const N: usize> {}"), True, "generic parameters")
    emit("b1_generic_where", [], sub(B1, 5, 'struct Len<T> where T: Copy {}'), True, "generic parameters")
    emit("b1_enum", [], sub(B1, 5, 'enum Len {}'), True, "non-struct item")
    emit("b1_union", [], sub(B1, 5, 'union Len { a: u8 }'), True, "non-struct item")
    emit("b1_trait", [], sub(B1, 5, 'trait Len {}'), True, "non-struct item")
    emit("b1_unit_struct_semicolon_fields", [], sub(B1, 5, 'struct Len(f64, f64);'), True, "struct fields")
    emit("b1_unit_two_symbols", [], sub(B1, 3, '#[unit(Inch, "in", "inch", "doc")]'), True, "wrong kind of argument")
    emit("b1_unit_trailing_junk", [], sub(B1, 3, '#[unit(Inch, "in", 0.0254, NONE)]'), True, "wrong kind of argument")
    emit("b1_unit_negative_scale_expr", [], sub(B1, 3, '#[unit(Inch, "in", 1 + 1)]'), True, "wrong kind of argument")
    emit("b1_ref_unit_with_int_scale", [], sub(B1, 1, '#[ref_unit(Meter, "m", NONE, 1)]'), True, "scale on the reference unit")
    emit("b1_three_ref_units", [], sub(B1, 2, ['#[ref_unit(Kilometer, "km", KILO)]', '#[ref_unit(Mile, "mi")]']), True, "more than one reference unit")
    emit("b1_unit_no_args", [], sub(B1, 3, '#[unit()]'), True, "wrong number of arguments")
    emit("b1_unit_bare", [], sub(B1, 3, '#[unit]'), True, "wrong number of arguments")
    emit("b1_fn", [], sub(B1, 5, 'fn len() {}'), True, "non-struct item")
    # --- defects on the base without reference unit ----------------------------
    emit("b2_no_unit", [], [B2[0], B2[3]], True, "no unit")
    emit("b2_scale_without_ref_unit", [], sub(B2, 2, '#[unit(Celsius, "°C", 1.0)]'), True, "scale without reference unit")
    emit("b2_prefix_without_ref_unit", [], sub(B2, 2, '#[unit(Celsius, "°C", NONE)]'), True, "prefix without reference unit")
    emit("b2_unit_one_arg", [], sub(B2, 2, '#[unit(Celsius)]'), True, "wrong number of arguments")
    emit("b2_named_field", [], sub(B2, 3, 'struct Temp { t: f64 }'), True, "struct fields")
    emit("b2_generic", [], sub(B2, 3, 'struct Temp<T> {}'), True, "generic parameters")
    emit("b2_generic_lifetime", [], sub(B2, 3, "struct Temp<'a> {}"), True, "generic parameters")
    emit("b2_generic_const", [], sub(B2, 3, 'struct Temp<const N: usize> {}'), True, "generic parameters")
    emit("b2_scale_and_prefix_without_ref_unit", [], sub(B2, 2, '#[unit(Celsius, "°C", NONE, 1.0)]'), True, "scale or prefix without reference unit")
    emit("b2_single_scale_without_ref_unit", [], [B2[0], '#[unit(Kelvin, "K", 1.0)]', B2[3]], True, "scale without reference unit")
    emit("b2_single_prefix_without_ref_unit", [], [B2[0], '#[unit(Kelvin, "K", NONE)]', B2[3]], True, "prefix without reference unit")
    emit("b2_enum", [], sub(B2, 3, 'enum Temp { A }'), True, "non-struct item")
    # --- derivation arguments ------------------------------------------------------
    emit("b3_arg_plus", B3_PRE, sub(B3, 0, '#[quantity(Foo + Bar)]'), True, "derivation argument")
    emit("b3_arg_times_literal", B3_PRE, sub(B3, 0, '#[quantity(Foo * 2)]'), True, "derivation argument")
    emit("b3_arg_single_ident", B3_PRE, sub(B3, 0, '#[quantity(Foo)]'), True, "derivation argument")
    emit("b3_arg_three_factors", B3_PRE, sub(B3, 0, '#[quantity(Foo * Bar * Foo)]'), True, "derivation argument")
    emit("b3_arg_path", B3_PRE, sub(B3, 0, '#[quantity(self::Foo * Bar)]'), True, "derivation argument")
    emit("b3_two_ref_units", B3_PRE, sub(B3, 2, '#[ref_unit(Millibazoo, "mb", MILLI)]'), True, "more than one reference unit")
    emit("b3_named_field", B3_PRE, sub(B3, 3, 'struct Baz { v: f64 }'), True, "struct fields")
    emit("b3_generic_lifetime", B3_PRE, sub(B3, 3, "struct Baz<'a> {}"), True, "generic parameters")
    emit("b3_arg_minus", B3_PRE, sub(B3, 0, '#[quantity(Foo - Bar)]'), True, "derivation argument")
    emit("b3_arg_parenthesised", B3_PRE, sub(B3, 0, '#[quantity((Foo) * Bar)]'), True, "derivation argument")
    emit("b3_arg_call", B3_PRE, sub(B3, 0, '#[quantity(Foo * bar())]'), True, "derivation argument")
    emit("b3_arg_string", B3_PRE, sub(B3, 0, '#[quantity("Foo * Bar")]'), True, "derivation argument")
    emit("b3_arg_two_exprs", B3_PRE, sub(B3, 0, '#[quantity(Foo * Bar, Foo / Bar)]'), True, "derivation argument")
    # --- derived definitions whose operand / result lacks a reference unit --------------
    no_ref_foo = ['#[quantity]', '#[unit(Flop, "f")]', '#[unit(Kiloflop, "kf")]', 'struct Foo {}', ''] + B3_PRE[5:]
    no_ref_bar = B3_PRE[:5] + ['#[quantity]', '#[unit(Emil, "e")]', '#[unit(Milliemil, "me")]', 'struct Bar {}', '']
    emit("b3_lhs_without_ref_unit", no_ref_foo, B3, True, "derived: operand without reference unit")
    emit("b3_rhs_without_ref_unit", no_ref_bar, B3, True, "derived: operand without reference unit")
    emit("b3_div_lhs_without_ref_unit", no_ref_foo, sub(B3, 0, '#[quantity(Foo / Bar)]'), True, "derived: operand without reference unit")
    emit("b3_res_without_ref_unit", B3_PRE, ['#[quantity(Foo * Bar)]', '#[unit(Bazoo, "b")]', '#[unit(Millibazoo, "mb")]', 'struct Baz {}'], True,
         "derived: result without reference unit")
    emit("b3_res_single_unit", B3_PRE, ['#[quantity(Foo * Bar)]', '#[ref_unit(Bazoo, "b")]', 'struct Baz {}'], True,
         "derived: result without reference unit (single-unit path)")
    # --- argument-kind matrix: every argument position x every wrong token kind -----------
    WRONG = {"int": "5", "float": "1.5", "char": "'c'", "bool": "true", "bytes": 'b"x"', "str": '"Txt"', "ident": "Abc", "path": "a::Abc",
             "neg": "-1", "paren": "(1.0)", "array": "[1.0]"}

    def matrix(tag, base, pre, idx, attr, good, allowed):
        """good: argument list of a well-formed attribute; allowed[i]: token kinds that
        keep position i well-formed (or make the attribute a different but
        well-formed one) and are therefore not emitted."""
        for i in range(len(good)):
            for kind, tok in sorted(WRONG.items()):
                if kind in allowed[i]:
                    continue
                args = list(good)
                args[i] = tok
                emit("%s_%s_arg%d_%s" % (tag, attr, i, kind), pre, sub(base, idx, "#[%s(%s)]" % (attr, ", ".join(args))), True, "wrong kind of argument")
    # #[unit(ident, symbol, prefix, scale, doc)] next to a reference unit
    matrix("b1m", B1, [], 3, "unit", ["Inch", '"in"', "NONE", "0.0254", '"doc"'],
           [{"ident"}, {"str"}, {"ident"}, {"int", "float", "neg"}, {"str"}])
    # 3-argument form: third argument is the scale (a prefix alone or a doc alone is a unit without scale: rejected as well)
    matrix("b1m3", B1, [], 3, "unit", ["Inch", '"in"', "0.0254"], [{"ident"}, {"str"}, {"int", "float", "neg"}])
    # (a negative number in a scale position is a numeric literal of the right kind: accepted by the macro and
    # not among the property's defect classes; positivity of the catalogue's scales is C01's scale-table rule)
    # #[ref_unit(ident, symbol, prefix, doc)]
    matrix("b1r", B1, [], 1, "ref_unit", ["Meter", '"m"', "NONE", '"doc"'], [{"ident"}, {"str"}, {"ident", "str"}, {"str"}])
    # #[unit(ident, symbol, doc)] without reference unit
    matrix("b2m", B2, [], 2, "unit", ["Celsius", '"°C"', '"doc"'], [{"ident"}, {"str"}, {"str"}])
    return progs


def ui_programs():
    res = []
    for f in sorted(glob.glob(os.path.join(facts.REPO, "tests", "ui", "*.rs"))):
        name = "ui_" + os.path.basename(f)[:-3]
        src = open(f, encoding="utf-8").read()
        exp = []
        sp = f[:-3] + ".stderr"
        if os.path.exists(sp):
            lines = open(sp, encoding="utf-8").read().splitlines()
            for i, l in enumerate(lines):
                if l.startswith("error"):
                    msg = re.sub(r"^error(\[E\d+\])?: ", "", l)
                    code = re.match(r"^error\[(E\d+)\]", l)
                    loc = None
                    for j in range(i + 1, min(i + 12, len(lines))):
                        m = re.match(r"\s*--> [^:]+:(\d+):(\d+)", lines[j])
                        if m:
                            loc = (int(m.group(1)), int(m.group(2)))
                            break
                        if lines[j].startswith("error"):
                            break
                    exp.append((msg, code.group(1) if code else None, loc))
        res.append((name, src, exp))
    return res


def def_ranges(src):
    """Line ranges of the #[quantity] definitions in a program: from the first
    attribute / doc line of the item to the line that ends the item."""
    lines = src.splitlines()
    res = []
    i = 0
    while i < len(lines):
        if lines[i].lstrip().startswith("#[quantity"):
            a = i
            while a > 0 and lines[a - 1].lstrip().startswith(("#[", "///")):
                a -= 1
            j = i
            depth = 0
            seen_item = False
            while j < len(lines):
                l = lines[j]
                st = l.lstrip()
                if not seen_item and not (st.startswith(("#[", "///", "//")) or not st or depth > 0 or st.startswith(('"', ")]"))):
                    seen_item = True
                if not seen_item:
                    depth += l.count("(") + l.count("[") - l.count(")") - l.count("]")
                    j += 1
                    continue
                depth_b = 0
                k = j
                done = False
                while k < len(lines):
                    depth_b += lines[k].count("{") - lines[k].count("}")
                    if ("{" in "".join(lines[j:k + 1]) and depth_b <= 0) or (";" in lines[k] and "{" not in "".join(lines[j:k + 1])):
                        done = True
                        break
                    k += 1
                j = k if done else len(lines) - 1
                break
            res.append((a + 1, j + 1))
            i = j + 1
        else:
            i += 1
    return res


def run(ctx):
    d = witness.workdir("c12")
    progs = programs()
    if ctx.tier == "thorough":
        import random
        for k in range(3):
            rnd = random.Random(ctx.seed * 7919 + k)
            progs += programs(variant_bases(rnd), prefix="v%d_" % k)
    uis = ui_programs()
    examples = {p[0]: p[1] for p in progs}
    for (name, src, exp) in uis:
        examples[name] = src
    witness.write_crate(d, "c12w", features=["doc"], examples=examples)
    rc, recs, err = witness.cargo_check(d, "witness-c12", ["--examples", "--keep-going"])
    diags, arts = witness.diagnostics(recs)
    built = {n for (n, k) in arts if "example" in k}
    if not any(n == "quantities" for (n, k) in arts):
        ctx.fail("witness-build", "dependency", "the repository crate did not build for the witness crate:\n" + err[-800:], "cargo check")
        return
    n_fail = n_pass = 0
    for (name, src, rng, fail, cls) in progs:
        errs = [x for x in diags.get(name, []) if x[0] == "error" and not x[1].startswith("aborting") and not x[1].startswith("could not compile")]
        where = "witness %s (%s)" % (name, cls)
        if not fail:
            n_pass += 1
            ctx.ob("twin-compiles", name, not errs and name in built,
                   "the well-formed twin does not type-check (a witness that fails for another reason proves nothing): %s" % [e[1] for e in errs][:2], where)
            continue
        n_fail += 1
        ctx.ob("rejected", name, bool(errs) and name not in built,
               "malformed definition (%s) is ACCEPTED by the macro:\n%s" % (cls, "\n".join(src.splitlines()[rng[0] - 1:rng[1]])), where)
        if errs:
            outside = [e for e in errs if not (e[2] and e[2].endswith("examples/%s.rs" % name) and rng[0] <= e[3] <= rng[1])]
            ctx.ob("error-at-definition", name, not outside,
                   "error reported outside the offending definition (lines %d-%d): %s" % (rng[0], rng[1], [(e[1][:80], e[2], e[3]) for e in outside][:3]), where)
            ctx.sample({"witness": name, "class": cls, "first_error": errs[0][1][:120], "line": errs[0][3]})
    for (name, src, exp) in uis:
        errs = [x for x in diags.get(name, []) if x[0] == "error" and not x[1].startswith("aborting") and not x[1].startswith("could not compile")]
        where = "tests/ui/%s.rs" % name[3:]
        n_fail += 1
        ctx.ob("rejected", name, bool(errs) and name not in built, "tests/ui program is accepted", where)
        ranges = def_ranges(src)
        outside = [e for e in errs if not (e[2] and e[2].endswith("examples/%s.rs" % name) and any(a <= e[3] <= b for a, b in ranges))]
        ctx.ob("error-at-definition", name, not outside,
               "error reported outside any #[quantity] definition %s: %s" % (ranges, [(e[1][:80], e[3]) for e in outside][:3]), where)
        # errors emitted by the macro itself (no error code): message and position as recorded in the repository
        for (msg, code, loc) in exp:
            if loc is not None:
                # position only: a reworded message is not a violation
                hit = [e for e in errs if e[3] == loc[0] and (code is not None or e[4] == loc[1])]
                ctx.ob("ui-expected-error", "%s/%d:%d" % (name, loc[0], loc[1]), bool(hit),
                       "the repository records an error at %d:%d (%r); none is reported there; got %s" % (
                           loc[0], loc[1], msg[:60], [(e[1].splitlines()[0][:60], e[3], e[4]) for e in errs][:3]), where, nontrivial=(code is None))
    ctx.floor("compile-fail witnesses", n_fail, (380 + 13) if ctx.tier != "thorough" else (4 * 380 + 13))
    ctx.floor("compiling twins", n_pass, 8 if ctx.tier != "thorough" else 32)
    ctx.extra["witness_dir"] = d
    ctx.rule_text = "one program per defect class x base definition, each type-checked on its own (cargo check --examples --keep-going); verdict = rustc error inside the offending definition; twins must compile"
    ctx.trusted = ["rustc / cargo diagnostics (JSON)", "the witness corpus is finite: malformed definitions outside it are not decided"]
    ctx.assumptions = ["quantifier over programs: only the listed witnesses (defect classes x 3 bases) and the 13 tests/ui programs"]
    ctx.explanation = ("Compile-fail witnesses with compiling twins: for every defect class named by the property a malformed definition must be rejected by the type checker / macro with "
                       "every error's primary span inside that definition; the well-formed twin differing only in the defect must compile. Message wording is not matched for generated "
                       "witnesses; for tests/ui the macro's own messages and positions recorded in the repository must still be reported.")
