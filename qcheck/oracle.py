"""Loader for the independently written oracle tables under /verif/oracle."""
import json
import os
import re
from fractions import Fraction

from . import facts

ODIR = os.path.join(facts.VERIF, "oracle")

# pi to 60 digits (for the parsec); flagged non-terminating
PI = Fraction("3.14159265358979323846264338327950288419716939937510582097494")


class OUnit:
    def __init__(self, ident, symbol, metric, expr):
        self.ident = ident
        self.symbol = symbol
        self.metric = metric
        self.expr = expr
        self.value = None      # Fraction relative to the reference unit
        self.exact = True      # False when the definition involves pi


class OQuantity:
    def __init__(self, path, ref):
        self.path = path
        self.ref = ref
        self.units = {}


def load_units():
    qs = {}
    cur = None
    for raw in open(os.path.join(ODIR, "units.txt"), encoding="utf-8"):
        line = raw.strip()
        if not line or line.startswith("#"):
            continue
        m = re.match(r"\[(.+)\]\s+ref=(\S+)", line)
        if m:
            cur = OQuantity(m.group(1), None if m.group(2) == "-" else m.group(2))
            qs[cur.path] = cur
            continue
        parts = [p.strip() for p in line.split("|")]
        if len(parts) != 4:
            raise ValueError("bad oracle line: " + line)
        cur.units[parts[0]] = OUnit(parts[0], parts[1], parts[2] == "metric", parts[3])
    # evaluate
    def resolve_q(cur_q, mod):
        crate = cur_q.path.split("::")[0]
        cands = [q for p, q in qs.items() if p.split("::")[0] == crate and
                 (("::%s::" % mod) in p or p.endswith("::" + mod))]
        if len(cands) != 1:
            raise ValueError("oracle: cannot resolve quantity %s from %s" % (mod, cur_q.path))
        return cands[0]

    def ev_unit(q, u, stack=()):
        if u.value is not None:
            return u.value, u.exact
        if (q.path, u.ident) in stack:
            raise ValueError("oracle: cyclic definition " + u.ident)
        if u.expr == "-":
            return None, True
        toks = u.expr.split()
        val = None
        exact = True
        op = "*"
        for t in toks:
            if t in ("*", "/"):
                op = t
                continue
            if t == "pi":
                f, e = PI, False
            elif re.fullmatch(r"[0-9]+(\.[0-9]+)?", t):
                f, e = Fraction(t), True
            elif "::" in t:
                mod, name = t.split("::")
                oq = resolve_q(q, mod)
                f, e = ev_unit(oq, oq.units[name], stack + ((q.path, u.ident),))
            else:
                if t == u.ident:
                    # the reference unit defined as "1"
                    raise ValueError("oracle: self reference " + t)
                f, e = ev_unit(q, q.units[t], stack + ((q.path, u.ident),))
            if val is None:
                val = f if op == "*" else 1 / f
            else:
                val = val * f if op == "*" else val / f
            exact = exact and e
        u.value, u.exact = val, exact
        return val, exact

    for q in qs.values():
        for u in q.units.values():
            ev_unit(q, u)
    return qs


def load_prefixes():
    d = json.load(open(os.path.join(ODIR, "si_prefixes.json"), encoding="utf-8"))
    return d


def terminating(fr):
    d = fr.denominator
    for p in (2, 5):
        while d % p == 0:
            d //= p
    return d == 1
