"""C15 — text output (structure): delegation, templates, sign handling,
precision forwarding.  Digit generation / rounding / padding inside std and
fpdec formatting are trusted, not decided."""
from . import fmtdec, generic as G, model, opforms, spec as S, term as T, ws
from .model import ModelError

ARGS_NEW = "core::fmt::Arguments::<'a>::new"
ARG_PFX = "core::fmt::rt::Argument::<'_>::"
DISPLAY_FMT = "core::fmt::Display::fmt"
PAD_INTEGRAL = "core::fmt::Formatter::<'a>::pad_integral"
PRECISION = "core::fmt::Formatter::<'a>::precision"
WRITE_FMT = "core::fmt::Formatter::<'a>::write_fmt"
FORMAT = "alloc::fmt::format"


class FmtShape(Exception):
    pass


def abstract(t):
    """fmt::Arguments term -> [('lit', s) | ('arg', trait, value, precision term|None, options)]"""
    if not (t[0] == "app" and t[1] == ARGS_NEW and len(t[3]) == 2 and t[3][0][0] == "bytes" and t[3][1][0] == "array"):
        if t[0] == "app" and t[1].startswith("core::fmt::Arguments") and len(t[3]) == 1 and t[3][0][0] == "str":
            return [("lit", t[3][0][1])]
        raise FmtShape("not a format_args! value: " + T.show(t))
    try:
        pieces = fmtdec.decode(t[3][0][1])
    except (fmtdec.FmtDecodeError, IndexError, UnicodeDecodeError) as e:
        raise FmtShape("cannot decode the format template: %s" % e)
    args = t[3][1][1]
    res = []

    def arg(i):
        if i >= len(args):
            raise FmtShape("argument index out of range")
        a = args[i]
        if not (a[0] == "app" and a[1].startswith(ARG_PFX) and len(a[3]) == 1):
            raise FmtShape("unexpected format argument " + T.show(a))
        return a[1][len(ARG_PFX):], a[3][0]
    for p in pieces:
        if p[0] == "lit":
            res.append(p)
            continue
        ph = p[1]
        kind, val = arg(ph["pos"])
        prec = None
        if ph["precision"] is not None:
            if ph["precision"][0] == "arg":
                k2, v2 = arg(ph["precision"][1])
                if k2 != "from_usize":
                    raise FmtShape("precision argument is not a usize")
                prec = v2
            else:
                prec = ("num", ph["precision"][1])
        opts = {k: ph[k] for k in ("fill", "sign_plus", "sign_minus", "alternate", "zero_pad", "align", "width", "debug_hex")}
        res.append(("arg", kind, T.canon(val), prec, opts))
    return res


DEFAULT_OPTS = {"fill": " ", "sign_plus": False, "sign_minus": False, "alternate": False, "zero_pad": False, "align": None, "width": None, "debug_hex": None}


def disp(v, prec=None):
    return ("arg", "new_display", T.canon(v), prec, dict(DEFAULT_OPTS))


def show_pieces(ps):
    out = []
    for p in ps:
        if p[0] == "lit":
            out.append(repr(p[1]))
        else:
            o = {k: v for k, v in p[4].items() if v != DEFAULT_OPTS[k]}
            out.append("{%s%s%s}" % (T.show(p[2]), (":.(%s)" % T.show(p[3])) if p[3] is not None else "", (" " + str(o)) if o else ""))
    return " ".join(out)


def quantity_fmt(ctx, config, U, amt):
    outs, b, ev = G.summarize(U, G.QTY + "fmt", set())
    where = b["span"]
    self_, form = S.P(0, "self"), S.P(1, "form")
    a = S.amount(self_)
    u = S.unit(self_)
    E = T.canon(("==", S.app("Unit::symbol", u), ("str", "")))
    from fractions import Fraction
    N = T.canon(("<=", ("num", Fraction(0), amt), a))
    atoms = T.guard_atoms(outs)
    Pobs = [x for x in atoms if x[0] == "isvar" and x[2] == "Some" and x[1][0] == "app" and x[1][1] == PRECISION and x[1][3] == (form,)]
    extra = [x for x in atoms if x not in (E, N) and x not in Pobs]
    ok = E in atoms and len(Pobs) == 1 and not extra
    ctx.ob("qty-fmt-cases", config, ok,
           "Quantity::fmt does not split exactly on {symbol empty, [amount >= 0,] precision given}: atoms %s" % [T.show(x) for x in atoms], where)
    if not ok:
        return
    P = Pobs[0]
    ctx.sample({"function": G.QTY + "fmt", "cases": len(outs)})
    for asg in T.assignments([E, N, P]):
        sel = T.select(outs, asg)
        case = "symbol %s, amount %s, precision %s" % ("empty" if asg[E] else "non-empty", ">= 0" if asg[N] else "< 0", "given" if asg[P] else "absent")
        inst = "%s/%s" % (config, case)
        if len(sel) != 1 or sel[0][0] != "val":
            ctx.fail("qty-fmt", inst, "%d outcomes" % len(sel), where)
            continue
        t = T.canon(sel[0][1])
        if asg[E]:
            # unit-less: the amount's own Display with the caller's formatter
            ok = t[0] == "app" and t[1] == DISPLAY_FMT and t[3] == (T.canon(a), form)
            ctx.ob("qty-fmt", inst, ok, "unit-less value is formatted as %s, expected Display::fmt(amount, caller's formatter)" % T.show(t), where)
            continue
        # pad_integral(form, N, "", &format!(...))
        ok = t[0] == "app" and t[1] == PAD_INTEGRAL and len(t[3]) == 4 and t[3][0] == form
        if not ok:
            ctx.fail("qty-fmt", inst, "not a single pad_integral call on the caller's formatter: " + T.show(t), where)
            continue
        _f, nn, prefix, s = t[3]
        ctx.ob("qty-fmt-sign", inst, nn == N, "is_nonnegative flag is %s, expected `amount >= 0`" % T.show(nn), where)
        ctx.ob("qty-fmt-prefix", inst, prefix == ("str", ""), "prefix is %s, expected the empty string" % T.show(prefix), where, nontrivial=False)
        if not (s[0] == "app" and s[1] == FORMAT and len(s[3]) == 1):
            ctx.fail("qty-fmt", inst, "the padded text is not a format! result: " + T.show(s), where)
            continue
        try:
            pieces = abstract(s[3][0])
        except FmtShape as e:
            ctx.fail("qty-fmt", inst, str(e), where)
            continue
        if amt == "f64":
            mag = a if asg[N] else ("neg", a)
            mag_ok = lambda v: v == T.canon(mag)
        else:
            mag_ok = lambda v: v == T.canon(("abs", a))
        prec = ("unwrap", T.canon(S.app(PRECISION, form))) if asg[P] else None
        good = (len(pieces) == 3 and pieces[0][0] == "arg" and pieces[0][1] == "new_display" and mag_ok(pieces[0][2])
                and pieces[0][3] == prec and pieces[0][4] == DEFAULT_OPTS
                and pieces[1] == ("lit", " ")
                and pieces[2][0] == "arg" and pieces[2][1] == "new_display" and pieces[2][2] == T.canon(u) and pieces[2][3] is None
                and pieces[2][4] == DEFAULT_OPTS)
        ctx.ob("qty-fmt", inst, good,
               "text is %s; expected {|amount|%s} ' ' {unit} — magnitude without sign (the sign is contributed once by pad_integral), one space, the unit last, "
               "precision forwarded exactly when given" % (show_pieces(pieces), ":.prec" if asg[P] else ""), where)


def width_per_character(ctx, config, w):
    """`width applies to the text as a whole`: Formatter::pad_integral accounts
    the width per BYTE of the buffer it is given (it is meant for ASCII
    digits); Quantity::fmt hands it the amount text *and the unit symbol*, so
    the padding is short by one column per extra byte of a non-ASCII symbol."""
    outs, b, _ = G.summarize(w.U, G.QTY + "fmt", set())
    uses = any(k == "val" and t[0] == "app" and t[1] == PAD_INTEGRAL for (g, k, t) in outs)
    if not uses:
        ctx.ob("width-per-character", "Quantity::fmt", True, "")
        return
    bad = []
    for q in w.qtypes:
        for v, sym in q.tables.get("symbol", {}).items():
            if sym[0] == "str" and not sym[1].isascii():
                bad.append("%s::%s %r" % (q.name, v, sym[1]))
    ctx.ob("width-per-character", "Quantity::fmt", not bad,
           "Quantity::fmt pads through Formatter::pad_integral, which counts bytes: for the %d units with a non-ASCII symbol (%s, ...) a requested width is "
           "applied one column short per extra byte (e.g. format!(\"{:>12}\", 29.35 cm²) yields 11 characters)" % (len(bad), ", ".join(bad[:6])), b["span"])


def unit_fmt(ctx, config, U):
    outs, b, _ = G.summarize(U, G.UNIT + "fmt", set())
    self_, form = S.P(0, "self"), S.P(1, "form")
    t = T.canon(outs[0][2]) if len(outs) == 1 and not outs[0][0] else None
    ok = t is not None and t[0] == "app" and t[1] == DISPLAY_FMT and t[3] == (T.canon(S.app("Unit::symbol", self_)), form)
    ctx.ob("unit-fmt", config, ok, "Unit::fmt is %s, expected Display::fmt(symbol, caller's formatter)" % (T.show(t) if t else outs), b["span"])


def rate_fmt(ctx, config, U):
    path = "<quantities::rate::Rate<TQ, PQ> as core::fmt::Display>::fmt"
    outs, b, _ = G.summarize(U, path, set())
    where = b["span"]
    self_, f = S.P(0, "self"), S.P(1, "f")
    fld = lambda n: ("field", self_, n)
    Tt = T.canon(("==", S.app("Unit::symbol", fld("term_unit")), ("str", "")))
    Pe = T.canon(("==", S.app("Unit::symbol", fld("per_unit")), ("str", "")))
    atoms = T.guard_atoms(outs)
    M = [x for x in atoms if x[0] == "==" and fld("per_unit_multiple") in x[1:] and any(y[0] == "num" and y[1] == 1 for y in x[1:])]
    if Tt not in atoms or Pe not in atoms or len(M) != 1:
        ctx.fail("rate-fmt-cases", config, "Display for Rate does not branch on {term symbol empty, per symbol empty, multiple == 1}: %s" % [T.show(x) for x in atoms][:8], where)
        return
    M = M[0]
    io_atoms = [x for x in atoms if x[0] == "isvar" and x[2] in ("Break", "Continue")]
    n = 0
    for (g, k, t) in outs:
        gd = dict(g)
        if any(gd.get(x) is True for x in io_atoms if x[2] == "Break"):
            continue  # an I/O error of the first write is propagated
        if Tt not in gd or Pe not in gd or (not gd[Pe] and M not in gd):
            ctx.fail("rate-fmt", "%s/%s" % (config, T.show_guard(g)[:80]), "case does not decide the three conditions", where)
            continue
        writes = []
        for (atom, pol) in g:
            if atom[0] == "isvar" and atom[2] in ("Break", "Continue"):
                x = atom[1]
                # branch(write_fmt(f, ARGS))
                if x[0] == "app" and x[3] and x[3][0][0] == "app" and x[3][0][1] == WRITE_FMT:
                    w = x[3][0]
                    if w not in writes:
                        writes.append(w)
        if t[0] == "app" and t[1] == WRITE_FMT:
            writes.append(t)
        case = "term symbol %s, per symbol %s%s" % ("empty" if gd[Tt] else "non-empty", "empty" if gd[Pe] else "non-empty",
                                                      "" if gd[Pe] else (", multiple == 1" if gd[M] else ", multiple != 1"))
        inst = "%s/%s" % (config, case)
        try:
            pieces = []
            for w in writes:
                if w[3][0] != f:
                    raise FmtShape("write to something other than the caller's formatter")
                pieces += abstract(w[3][1])
        except FmtShape as e:
            ctx.fail("rate-fmt", inst, str(e), where)
            continue
        # coalesce
        co = []
        for p in pieces:
            if p[0] == "lit" and co and co[-1][0] == "lit":
                co[-1] = ("lit", co[-1][1] + p[1])
            else:
                co.append(p)
        want = [disp(fld("term_amount"))]
        if not gd[Tt]:
            want += [("lit", " "), disp(S.app("Unit::symbol", fld("term_unit")))]
        want += [("lit", " / ")]
        if gd[Pe]:
            want += [disp(fld("per_unit_multiple"))]
        elif gd[M]:
            want += [disp(S.app("Unit::symbol", fld("per_unit")))]
        else:
            want += [disp(fld("per_unit_multiple")), ("lit", " "), disp(S.app("Unit::symbol", fld("per_unit")))]
        ctx.ob("rate-fmt", inst, co == want, "rate is written as %s, expected %s" % (show_pieces(co), show_pieces(want)), where)
        n += 1
    ctx.floor("%s: rate display cases" % config, n, 6)


def forwarders(ctx, config, w):
    U = w.U
    n = 0
    self_, f = S.P(0, "self"), S.P(1, "f")
    for q in w.qtypes:
        if q.kind == "dimless":
            targets = [(q.unit_path, "Unit::fmt")]
        else:
            targets = [(q.path, "Quantity::fmt"), (q.unit_path, "Unit::fmt")]
        for (ty, fn) in targets:
            crates = [q.crate] + [c for c in w.crates if c is not q.crate]
            imps = []
            for c in crates:
                imps = [i for i in c.impls if i.get("trait") == "core::fmt::Display" and model.ty_key(i["self_ty"]) == ty]
                if imps:
                    break
            inst = "%s/%s" % (config, ty)
            if len(imps) != 1:
                ctx.fail("display-forwarder", inst, "expected exactly one impl Display for %s, found %d" % (ty, len(imps)), q.span)
                continue
            opforms.body_form(ctx, "display-forwarder", inst, U, imps[0], "fmt", ("app", fn, ty, (self_, f)))
            n += 1
    return n


def symbol_resolves(ctx, config, w):
    """`the symbol resolves to the stored unit`: the first unit in iteration
    order carrying a unit's symbol is that unit (lookup model of C09 evaluated on
    the extracted tables of every type)."""
    n = 0
    for q in w.qtypes:
        if q.kind == "dimless":
            continue
        first = {}
        for v in q.variants_const:
            first.setdefault(q.tables["symbol"][v], v)
        for v in q.variants_const:
            n += 1
            ctx.ob("symbol-resolves", "%s/%s/%s" % (config, q.path, v), first[q.tables["symbol"][v]] == v,
                   "a value in %s displays with symbol %r, which resolves to %s" % (v, q.tables["symbol"][v][1], first[q.tables["symbol"][v]]), q.span,
                   nontrivial=False)
    return n


def symbol_is_declared(ctx, config, w):
    """What is displayed as the unit is the DECLARED symbol (all three code
    paths of the macro, every instance in the workspace)."""
    from . import decls as D
    for d, q in w.pairs:
        for u in d.units:
            var = D.upper_camel(u.ident)
            if var in q.tables["symbol"]:
                ctx.ob("symbol-is-declared", "%s/%s/%s" % (config, q.path, u.ident), q.tables["symbol"][var] == ("str", u.symbol),
                       "unit %s displays as %r, declared symbol is %r" % (u.ident, q.tables["symbol"][var], u.symbol), "%s:%d" % (d.file, u.line), nontrivial=False)


def run(ctx):
    for config in ("f64-all", "dec-all"):
        w = ws.load(config)
        ctx.configs.append(config)
        amt = ws.amount_type(config)
        symbol_resolves(ctx, config, w)
        symbol_is_declared(ctx, config, w)
        if config == "f64-all":
            width_per_character(ctx, config, w)
        quantity_fmt(ctx, config, w.U, amt)
        unit_fmt(ctx, config, w.U)
        rate_fmt(ctx, config, w.U)
        n = forwarders(ctx, config, w)
        ctx.floor("%s: Display forwarders" % config, n, 2 * (18 if config == "f64-all" else 14))
        for trait, allowed in ((model.T_QUANTITY, {"UnitType", "new", "amount", "unit"}), (model.T_UNIT, {"QuantityType", "iter", "name", "symbol", "si_prefix", "<rpitit>"})):
            for tk, (extra, imp) in G.overrides(ctx, "override", w.U, trait, allowed, trait).items():
                if "fmt" in extra:
                    ctx.fail("override", "%s/%s" % (config, tk), "impl overrides the default fmt", imp["span"])
    ctx.rule_text = "Quantity::fmt: 8 guard cases (symbol empty x sign x precision); Unit::fmt; Rate Display: 6 cases; one forwarder per generated Display impl"
    ctx.trusted = ["format_args! byte-code layout of the pinned toolchain (decoded, fail-closed)",
                   "std / fpdec formatting: digit generation, rounding at a precision, width/fill/alignment handling, Formatter::pad_integral, the '+' flag"]
    ctx.assumptions = ["NOT decided: that the amount text parses back to the stored amount, correct rounding at a precision, character counting of width — properties of std/fpdec formatting code"]
    ctx.explanation = ("Structure of the text output by data-flow: every generated Display impl forwards to Quantity::fmt / Unit::fmt with the caller's formatter; "
                       "Quantity::fmt writes exactly once, through pad_integral(amount >= 0, \"\", \"{|amount|} {unit}\") with the precision forwarded iff given, or the bare amount "
                       "for unit-less values; Unit::fmt is the symbol under string formatting; Rate writes 'term / per' omitting a per-multiple of one.")
