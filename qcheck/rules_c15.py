"""C15 — text output (structure): delegation, templates, sign handling,
precision forwarding.  Digit generation / rounding / padding inside std and
fpdec formatting are trusted, not decided."""
from . import fmtdec, generic as G, model, opforms, spec as S, term as T, ws
from .model import ModelError

ARGS_NEW = "core::fmt::Arguments::<'a>::new"
ARG_PFX = "core::fmt::rt::Argument::<'_>::"
DISPLAY_FMT = "core::fmt::Display::fmt"
PAD_INTEGRAL = "core::fmt::Formatter::<'a>::pad_integral"
PRECISION = "core::fmt::Formatter::<'a>::precision"
WRITE_FMT = "core::fmt::Formatter::<'a>::write_fmt"
WRITE_STR = "core::fmt::Formatter::<'a>::write_str"
FORMAT = "alloc::fmt::format"


SIGN_CLASSES = {
    # class: (value >= 0 ?, sign bit set ?)
    "f64": {"negative": (False, True), "negative zero": (True, True), "positive zero": (True, False), "positive": (True, False)},
    "fpdec::Decimal": {"negative": (False, True), "zero": (True, False), "positive": (True, False)},
}


class SignUnknown(Exception):
    pass


def sign_eval(t, a, cls):
    """Evaluates a boolean / amount term over one IEEE (resp. decimal) sign
    class of the amount `a`: booleans -> bool, amounts -> ('amt', sign bit)."""
    ge0, sbit = cls
    t = T.canon(t)
    if t == a:
        return ("amt", sbit)
    h = t[0]
    if h == "bool":
        return t[1]
    if h == "<=" and t[1][0] == "num" and t[1][1] == 0 and t[2] == a:
        return ge0
    if h == "<" and t[2][0] == "num" and t[2][1] == 0 and t[1] == a:
        return not ge0
    if h == "<" and t[1][0] == "num" and t[1][1] == 0 and t[2] == a:
        return ge0 and not (sbit or cls == SIGN_CLASSES["f64"]["positive zero"] or cls == SIGN_CLASSES["fpdec::Decimal"]["zero"])
    if h == "not":
        return not sign_eval(t[1], a, cls)
    if h in ("and", "or"):
        x, y = sign_eval(t[1], a, cls), sign_eval(t[2], a, cls)
        return (x and y) if h == "and" else (x or y)
    if h == "neg":
        v = sign_eval(t[1], a, cls)
        if isinstance(v, tuple):
            return ("amt", not v[1])
    if h == "abs":
        return ("amt", False)
    if h == "app" and len(t[3]) == 1 and t[3][0] == a:
        if t[1].endswith("::is_sign_negative") or t[1].endswith("::is_negative"):
            return sbit
        if t[1].endswith("::is_sign_positive") or t[1].endswith("::is_positive"):
            return not sbit
    raise SignUnknown(T.show(t))


class FmtShape(Exception):
    pass


def abstract(t):
    """fmt::Arguments term -> [('lit', s) | ('arg', trait, value, precision term|None, options)]"""
    if not (t[0] == "app" and t[1] == ARGS_NEW and len(t[3]) == 2 and t[3][0][0] == "bytes" and t[3][1][0] == "array"):
        if t[0] == "app" and t[1].startswith("core::fmt::Arguments") and len(t[3]) == 1 and t[3][0][0] == "str":
            return [("lit", t[3][0][1])]
        raise FmtShape("not a format_args! value: " + T.show(t))
    try:
        pieces = fmtdec.decode(t[3][0][1])
    except (fmtdec.FmtDecodeError, IndexError, UnicodeDecodeError) as e:
        raise FmtShape("cannot decode the format template: %s" % e)
    args = t[3][1][1]
    res = []

    def arg(i):
        if i >= len(args):
            raise FmtShape("argument index out of range")
        a = args[i]
        if not (a[0] == "app" and a[1].startswith(ARG_PFX) and len(a[3]) == 1):
            raise FmtShape("unexpected format argument " + T.show(a))
        return a[1][len(ARG_PFX):], a[3][0]
    for p in pieces:
        if p[0] == "lit":
            res.append(p)
            continue
        ph = p[1]
        kind, val = arg(ph["pos"])
        prec = None
        if ph["precision"] is not None:
            if ph["precision"][0] == "arg":
                k2, v2 = arg(ph["precision"][1])
                if k2 != "from_usize":
                    raise FmtShape("precision argument is not a usize")
                prec = v2
            else:
                prec = ("num", ph["precision"][1])
        opts = {k: ph[k] for k in ("fill", "sign_plus", "sign_minus", "alternate", "zero_pad", "align", "width", "debug_hex")}
        res.append(("arg", kind, T.canon(val), prec, opts))
    return res


DEFAULT_OPTS = {"fill": " ", "sign_plus": False, "sign_minus": False, "alternate": False, "zero_pad": False, "align": None, "width": None, "debug_hex": None}


def disp(v, prec=None):
    return ("arg", "new_display", T.canon(v), prec, dict(DEFAULT_OPTS))


def show_pieces(ps):
    out = []
    for p in ps:
        if p[0] == "lit":
            out.append(repr(p[1]))
        else:
            o = {k: v for k, v in p[4].items() if v != DEFAULT_OPTS[k]}
            out.append("{%s%s%s}" % (T.show(p[2]), (":.(%s)" % T.show(p[3])) if p[3] is not None else "", (" " + str(o)) if o else ""))
    return " ".join(out)


def quantity_fmt(ctx, config, U, amt):
    outs, b, ev = G.summarize(U, G.QTY + "fmt", set())
    where = b["span"]
    self_, form = S.P(0, "self"), S.P(1, "form")
    a = T.canon(S.amount(self_))
    u = S.unit(self_)
    E = T.canon(("==", S.app("Unit::symbol", u), ("str", "")))
    atoms = T.guard_atoms(outs)
    Pobs = [x for x in atoms if x[0] == "isvar" and x[2] == "Some" and x[1][0] == "app" and x[1][1] == PRECISION and x[1][3] == (form,)]
    sign_atoms = [x for x in atoms if x != E and x not in Pobs]
    # every other guard atom must be a condition on the sign of the amount
    bad = []
    for x in sign_atoms:
        try:
            sign_eval(x, a, next(iter(SIGN_CLASSES[amt].values())))
        except SignUnknown:
            bad.append(x)
    ok = E in atoms and len(Pobs) == 1 and not bad
    ctx.ob("qty-fmt-cases", config, ok,
           "Quantity::fmt does not split exactly on {symbol empty, sign of the amount, precision given}: atoms %s" % [T.show(x) for x in atoms], where)
    if not ok:
        return
    P = Pobs[0]
    ctx.sample({"function": G.QTY + "fmt", "cases": len(outs)})
    for cname, cls in SIGN_CLASSES[amt].items():
        for e_val in (True, False):
            for p_val in (True, False):
                asg = {E: e_val, P: p_val}
                for x in sign_atoms:
                    asg[x] = sign_eval(x, a, cls)
                sel = T.select(outs, asg)
                case = "symbol %s, amount %s, precision %s" % ("empty" if e_val else "non-empty", cname, "given" if p_val else "absent")
                inst = "%s/%s" % (config, case)
                if len(sel) != 1 or sel[0][0] != "val":
                    ctx.fail("qty-fmt", inst, "%d outcomes" % len(sel), where)
                    continue
                t = T.canon(sel[0][1])
                if e_val:
                    # unit-less: the amount's own Display with the caller's formatter
                    ok = t[0] == "app" and t[1] == DISPLAY_FMT and t[3] == (a, form)
                    ctx.ob("qty-fmt", inst, ok, "unit-less value is formatted as %s, expected Display::fmt(amount, caller's formatter)" % T.show(t), where)
                    continue
                ok = t[0] == "app" and t[1] == PAD_INTEGRAL and len(t[3]) == 4 and t[3][0] == form
                if not ok:
                    ctx.fail("qty-fmt", inst, "not a single pad_integral call on the caller's formatter: " + T.show(t), where)
                    continue
                _f, nn, prefix, s = t[3]
                try:
                    flag = sign_eval(nn, a, cls)
                except SignUnknown as x:
                    flag = None
                ctx.ob("qty-fmt-sign", inst, flag is not None and (flag == (not cls[1]) or cname == "negative zero"),
                       "is_nonnegative flag %s evaluates to %s for a %s amount" % (T.show(nn), flag, cname), where)
                ctx.ob("qty-fmt-prefix", inst, prefix == ("str", ""), "prefix is %s, expected the empty string" % T.show(prefix), where, nontrivial=False)
                if not (s[0] == "app" and s[1] == FORMAT and len(s[3]) == 1):
                    ctx.fail("qty-fmt", inst, "the padded text is not a format! result: " + T.show(s), where)
                    continue
                try:
                    pieces = abstract(s[3][0])
                except FmtShape as e:
                    ctx.fail("qty-fmt", inst, str(e), where)
                    continue
                prec = ("unwrap", T.canon(S.app(PRECISION, form))) if p_val else None
                mag_ok = len(pieces) == 3 and pieces[0][0] == "arg" and pieces[0][2] in (a, T.canon(("neg", a)), T.canon(("abs", a)))
                good = (mag_ok and pieces[0][1] == "new_display" and pieces[0][3] == prec and pieces[0][4] == DEFAULT_OPTS
                        and pieces[1] == ("lit", " ")
                        # `{unit}` and `{unit.symbol()}` are the same text: a `{}` placeholder formats with default options, and
                        # Display for a unit is its symbol under string formatting (rules unit-fmt / forwarder)
                        and pieces[2][0] == "arg" and pieces[2][1] == "new_display" and pieces[2][2] in (T.canon(u), T.canon(S.app("Unit::symbol", u)))
                        and pieces[2][3] is None
                        and pieces[2][4] == DEFAULT_OPTS)
                ctx.ob("qty-fmt", inst, good,
                       "text is %s; expected {|amount|%s} ' ' {unit} — the amount (or its negation / absolute value), one space, the unit last, "
                       "precision forwarded exactly when given" % (show_pieces(pieces), ":.prec" if p_val else ""), where)


def width_per_character(ctx, config, w):
    """`width applies to the text as a whole`: Formatter::pad_integral accounts
    the width per BYTE of the buffer it is given (it is meant for ASCII
    digits); Quantity::fmt hands it the amount text *and the unit symbol*, so
    the padding is short by one column per extra byte of a non-ASCII symbol."""
    outs, b, _ = G.summarize(w.U, G.QTY + "fmt", set())
    uses = any(k == "val" and t[0] == "app" and t[1] == PAD_INTEGRAL for (g, k, t) in outs)
    if not uses:
        ctx.ob("width-per-character", "Quantity::fmt", True, "")
        return
    bad = []
    for q in w.qtypes:
        for v, sym in q.tables.get("symbol", {}).items():
            if sym[0] == "str" and not sym[1].isascii():
                bad.append("%s::%s %r" % (q.name, v, sym[1]))
    ctx.ob("width-per-character", "Quantity::fmt", not bad,
           "Quantity::fmt pads through Formatter::pad_integral, which counts bytes: for the %d units with a non-ASCII symbol (%s, ...) a requested width is "
           "applied one column short per extra byte (e.g. format!(\"{:>12}\", 29.35 cm²) yields 11 characters)" % (len(bad), ", ".join(bad[:6])), b["span"])


def unit_fmt(ctx, config, U):
    outs, b, _ = G.summarize(U, G.UNIT + "fmt", set())
    self_, form = S.P(0, "self"), S.P(1, "form")
    t = T.canon(outs[0][2]) if len(outs) == 1 and not outs[0][0] else None
    sym = T.canon(S.app("Unit::symbol", self_))
    # `<str as Display>::fmt(s, f)` is `f.pad(s)` (std): both spellings are "the symbol under ordinary string formatting rules"
    ok = t is not None and t[0] == "app" and ((t[1] == DISPLAY_FMT and t[3] == (sym, form)) or (t[1] == "core::fmt::Formatter::<'a>::pad" and t[3] == (form, sym)))
    ctx.ob("unit-fmt", config, ok, "Unit::fmt is %s, expected Display::fmt(symbol, caller's formatter) (or the equivalent formatter.pad(symbol))" % (T.show(t) if t else outs), b["span"])


def fmt_override_ok(w, trait, tk, imp):
    """A type's own `fmt` in place of the trait default: accepted (None) when it is that default specialised to the type
    — for a unit type: the variant's symbol under string formatting (`Display::fmt(sym, f)` / `f.pad(sym)`, `sym` being
    `self.symbol()` or a literal equal to the symbol of every variant); for a quantity type all of whose units have
    an empty symbol: the bare amount under the amount type's own formatting.  Otherwise the reason."""
    U = w.U
    it = U.impl_item(imp, "fmt")
    b = U.body.get(it["path"]) if it else None
    if b is None:
        return "no body"
    try:
        outs = T.Evaluator(U, keep_tags=False).summarize(b)
    except T.Unsupported as x:
        return "outside the analysed fragment: " + x.what
    if len(outs) != 1 or outs[0][0] or outs[0][1] != "val":
        return "not a single unconditional call"
    t = T.canon(outs[0][2])
    self_, form = S.P(0, "self"), S.P(1, "form")
    if t[0] != "app":
        return "not a formatting call"
    if t[1] == DISPLAY_FMT and len(t[3]) == 2 and t[3][1] == form:
        x = t[3][0]
    elif t[1] == "core::fmt::Formatter::<'a>::pad" and len(t[3]) == 2 and t[3][0] == form:
        x = t[3][1]
    else:
        return "body is %s" % T.show(t)
    if trait == model.T_UNIT:
        q = next((q for q in w.qtypes if q.unit_path == tk), None)
        if q is None:
            return "unknown unit type"
        if x == T.canon(S.app("Unit::symbol", self_)):
            return None
        if x[0] == "str" and all(q.tables["symbol"].get(v) == ("str", x[1]) for v in q.variants):
            return None
        return "formats %s, not the unit's symbol" % T.show(x)
    q = w.by_path.get(tk)
    if q is None:
        return "unknown quantity type"
    if not all(q.tables["symbol"].get(v) == ("str", "") for v in q.variants):
        return "a quantity type with unit symbols: its formatting is the generic Quantity::fmt's business"
    if x == self_ and q.kind == "dimless":
        return None
    if x == T.canon(S.amount(self_)):
        return None
    return "formats %s, not the amount" % T.show(x)


def rate_fmt(ctx, config, U):
    path = "<quantities::rate::Rate<TQ, PQ> as core::fmt::Display>::fmt"
    outs, b, _ = G.summarize(U, path, set())
    where = b["span"]
    self_, f = S.P(0, "self"), S.P(1, "f")
    fld = lambda n: ("field", self_, n)
    Tt = T.canon(("==", S.app("Unit::symbol", fld("term_unit")), ("str", "")))
    Pe = T.canon(("==", S.app("Unit::symbol", fld("per_unit")), ("str", "")))
    atoms = T.guard_atoms(outs)
    M = [x for x in atoms if x[0] == "==" and fld("per_unit_multiple") in x[1:] and any(y[0] == "num" and y[1] == 1 for y in x[1:])]
    if Tt not in atoms or Pe not in atoms or len(M) != 1:
        ctx.fail("rate-fmt-cases", config, "Display for Rate does not branch on {term symbol empty, per symbol empty, multiple == 1}: %s" % [T.show(x) for x in atoms][:8], where)
        return
    M = M[0]
    io_atoms = [x for x in atoms if x[0] == "isvar" and x[2] in ("Break", "Continue")]
    n = 0
    for (g, k, t) in outs:
        gd = dict(g)
        if any(gd.get(x) is True for x in io_atoms if x[2] == "Break"):
            continue  # an I/O error of the first write is propagated
        if Tt not in gd or Pe not in gd or (not gd[Pe] and M not in gd):
            ctx.fail("rate-fmt", "%s/%s" % (config, T.show_guard(g)[:80]), "case does not decide the three conditions", where)
            continue
        writes = []
        for (atom, pol) in g:
            if atom[0] == "isvar" and atom[2] in ("Break", "Continue"):
                x = atom[1]
                # branch(write_fmt(f, ARGS))
                if x[0] == "app" and x[3] and x[3][0][0] == "app" and x[3][0][1] in (WRITE_FMT, WRITE_STR):
                    w = x[3][0]
                    if w not in writes:
                        writes.append(w)
        if t[0] == "app" and t[1] in (WRITE_FMT, WRITE_STR):
            writes.append(t)
        case = "term symbol %s, per symbol %s%s" % ("empty" if gd[Tt] else "non-empty", "empty" if gd[Pe] else "non-empty",
                                                      "" if gd[Pe] else (", multiple == 1" if gd[M] else ", multiple != 1"))
        inst = "%s/%s" % (config, case)
        try:
            pieces = []
            for w in writes:
                if w[3][0] != f:
                    raise FmtShape("write to something other than the caller's formatter")
                if w[1] == WRITE_STR:
                    # `f.write_str(s)` writes s verbatim — the text of `write!(f, "{}", s)`
                    pieces += [("lit", w[3][1][1])] if w[3][1][0] == "str" else [disp(w[3][1])]
                else:
                    pieces += abstract(w[3][1])
        except FmtShape as e:
            ctx.fail("rate-fmt", inst, str(e), where)
            continue
        # coalesce
        co = []
        for p in pieces:
            if p[0] == "lit" and co and co[-1][0] == "lit":
                co[-1] = ("lit", co[-1][1] + p[1])
            else:
                co.append(p)
        want = [disp(fld("term_amount"))]
        if not gd[Tt]:
            want += [("lit", " "), disp(S.app("Unit::symbol", fld("term_unit")))]
        want += [("lit", " / ")]
        if gd[Pe]:
            want += [disp(fld("per_unit_multiple"))]
        elif gd[M]:
            want += [disp(S.app("Unit::symbol", fld("per_unit")))]
        else:
            want += [disp(fld("per_unit_multiple")), ("lit", " "), disp(S.app("Unit::symbol", fld("per_unit")))]
        ctx.ob("rate-fmt", inst, co == want, "rate is written as %s, expected %s" % (show_pieces(co), show_pieces(want)), where)
        n += 1
    ctx.floor("%s: rate display cases" % config, n, 6)


def forwarders(ctx, config, w):
    U = w.U
    n = 0
    self_, f = S.P(0, "self"), S.P(1, "f")
    for q in w.qtypes:
        if q.kind == "dimless":
            targets = [(q.unit_path, "Unit::fmt")]
        else:
            targets = [(q.path, "Quantity::fmt"), (q.unit_path, "Unit::fmt")]
        for (ty, fn) in targets:
            crates = [q.crate] + [c for c in w.crates if c is not q.crate]
            imps = []
            for c in crates:
                imps = [i for i in c.impls if i.get("trait") == "core::fmt::Display" and model.ty_key(i["self_ty"]) == ty]
                if imps:
                    break
            inst = "%s/%s" % (config, ty)
            if len(imps) != 1:
                ctx.fail("display-forwarder", inst, "expected exactly one impl Display for %s, found %d" % (ty, len(imps)), q.span)
                continue
            if fn == "Unit::fmt" and unit_display_by_table(U, q, imps[0], self_, f):
                # not the forwarding call, but per variant exactly what Unit::fmt writes: that variant's symbol under
                # string formatting
                ctx.ob("display-forwarder", inst, True, "", imps[0]["span"])
            else:
                opforms.body_form(ctx, "display-forwarder", inst, U, imps[0], "fmt", ("app", fn, ty, (self_, f)))
            n += 1
    return n


def unit_display_by_table(U, q, imp, self_, f):
    b = U.item_body(imp, "fmt")
    if b is None:
        return False
    try:
        outs = T.Evaluator(U, keep_tags=False).summarize(b)
    except T.Unsupported:
        return False
    if len(outs) < 1:
        return False
    if len(outs) == 1 and not outs[0][0]:
        # a single unconditional write: right when the type has one unit and it is that unit's symbol
        t = T.canon(outs[0][2])
        if len(q.variants) != 1 or outs[0][1] != "val" or t[0] != "app":
            return False
        x = t[3][0] if (t[1] == DISPLAY_FMT and len(t[3]) == 2 and t[3][1] == f) else \
            t[3][1] if (t[1] == "core::fmt::Formatter::<'a>::pad" and len(t[3]) == 2 and t[3][0] == f) else None
        return x is not None and x[0] == "str" and x == q.tables["symbol"].get(q.variants[0])
    seen = set()
    for (g, k, t) in outs:
        t = T.canon(t)
        pos = [a for a, p in g if p and a[0] == "isvar" and a[1] == self_]
        if k != "val" or len(pos) != 1 or any(a[0] != "isvar" or a[1] != self_ for a, _p in g) or t[0] != "app":
            return False
        v = pos[0][2]
        if t[1] == DISPLAY_FMT and len(t[3]) == 2 and t[3][1] == f:
            x = t[3][0]
        elif t[1] == "core::fmt::Formatter::<'a>::pad" and len(t[3]) == 2 and t[3][0] == f:
            x = t[3][1]
        else:
            return False
        if x != q.tables["symbol"].get(v):
            return False
        seen.add(v)
    return seen == set(q.variants)


def single_sign(ctx, config, U, amt):
    """`a single leading minus`: over every sign class of the amount the
    magnitude handed to Display carries no sign of its own and pad_integral's
    is_nonnegative flag is exactly `sign bit clear`."""
    outs, b, _ = G.summarize(U, G.QTY + "fmt", set())
    a = T.canon(S.amount(S.P(0, "self")))
    where = b["span"]
    for cname, cls in SIGN_CLASSES[amt].items():
        inst = "%s/%s" % (config, cname)
        done = 0
        for (g, k, t) in outs:
            if not (k == "val" and t[0] == "app" and t[1] == PAD_INTEGRAL and len(t[3]) == 4):
                continue
            try:
                applicable = True
                for at, pol in g:
                    try:
                        v = sign_eval(at, a, cls)
                    except SignUnknown:
                        continue   # atoms not about the sign (symbol empty, precision)
                    if v != pol:
                        applicable = False
                        break
                if not applicable:
                    continue
                flag = sign_eval(t[3][1], a, cls)
                s_ = t[3][3]
                pieces = abstract(s_[3][0]) if s_[0] == "app" and s_[1] == FORMAT else None
                mag = sign_eval(pieces[0][2], a, cls) if pieces else None
            except (SignUnknown, FmtShape) as e:
                ctx.fail("single-sign", inst, "cannot evaluate the sign handling: %s" % e, where)
                done += 1
                continue
            done += 1
            ok = isinstance(mag, tuple) and mag[1] is False and flag == (not cls[1])
            ctx.ob("single-sign", inst, ok,
                   "for a %s amount the text handed to pad_integral %s and the is_nonnegative flag is %s: the value is shown with %s (e.g. format!(\"{:+}\", -0.0 m) = \"+-0 m\", "
                   "{:08} = \"0000-0 m\")" % (cname, "starts with the amount's own minus sign" if isinstance(mag, tuple) and mag[1] else "is unsigned", flag,
                                               "two signs / a misplaced sign under the '+' flag or zero padding" if isinstance(mag, tuple) and mag[1] and flag else "a wrong sign"),
                   where)
        if done == 0:
            ctx.fail("single-sign", inst, "no formatting case applies to this sign class", where)


def symbol_resolves(ctx, config, w):
    """`the symbol resolves to the stored unit`: Quantity::unit_from_symbol — its gated summary, the type's own
    bodies where it overrides a lookup — evaluated by the model interpreter on the type's table with the symbol
    every unit displays must return that unit (C09's lookup evaluation, for the keys a displayed value produces)."""
    from . import conc, rules_c09
    generic = rules_c09.lookup_summaries(ctx, config, w.U, tag="/display")
    n = 0
    for q in w.qtypes:
        if q.kind == "dimless":
            continue
        ov = {k: v for k, v in G.type_overrides(w.U, q).items() if k in rules_c09.LK}
        lk = rules_c09.lookup_summaries(ctx, config, w.U, overrides=ov, tag="/display/" + q.path) if ov else generic
        ent = lk.get("Quantity::unit_from_symbol")
        if ent is None:
            ctx.fail("symbol-resolves", "%s/%s" % (config, q.path), "Quantity::unit_from_symbol cannot be decided on the symbol partition (see lookup-key-use)", q.span)
            continue
        kind, outs, b, ev = ent
        for v in q.variants_const:
            sym = q.tables["symbol"][v][1]
            n += 1
            try:
                r = conc.Conc(w.U, q, ev).pick(outs, {0: sym})
                got = r[1] if r is not None else None
            except (conc.CannotEvaluate, conc.ModelPanic, T.Unsupported) as x:
                got = "cannot evaluate: %s" % x
            ctx.ob("symbol-resolves", "%s/%s/%s" % (config, q.path, v), got == v,
                   "a value in %s displays with symbol %r, which resolves to %s" % (v, sym, got), b["span"], nontrivial=False)
    return n


def symbol_is_declared(ctx, config, w):
    """What is displayed as the unit is the DECLARED symbol (all three code
    paths of the macro, every instance in the workspace)."""
    from . import decls as D
    for d, q in w.pairs:
        for u in d.units:
            var = D.upper_camel(u.ident)
            if var in q.tables["symbol"]:
                ctx.ob("symbol-is-declared", "%s/%s/%s" % (config, q.path, u.ident), q.tables["symbol"][var] == ("str", u.symbol),
                       "unit %s displays as %r, declared symbol is %r" % (u.ident, q.tables["symbol"][var], u.symbol), "%s:%d" % (d.file, u.line), nontrivial=False)


def run(ctx):
    for config in ("f64-all", "dec-all"):
        w = ws.load(config)
        ctx.configs.append(config)
        amt = ws.amount_type(config)
        symbol_resolves(ctx, config, w)
        symbol_is_declared(ctx, config, w)
        if config == "f64-all":
            width_per_character(ctx, config, w)
        quantity_fmt(ctx, config, w.U, amt)
        single_sign(ctx, config, w.U, amt)
        unit_fmt(ctx, config, w.U)
        rate_fmt(ctx, config, w.U)
        n = forwarders(ctx, config, w)
        ctx.floor("%s: Display forwarders" % config, n, 2 * (18 if config == "f64-all" else 14))
        for trait, allowed in ((model.T_QUANTITY, {"UnitType", "new", "amount", "unit"}), (model.T_UNIT, {"QuantityType", "iter", "name", "symbol", "si_prefix", "<rpitit>"})):
            for tk, (extra, imp) in G.overrides(ctx, "override", w.U, trait, allowed, trait).items():
                if "fmt" in extra:
                    why = fmt_override_ok(w, trait, tk, imp)
                    ctx.ob("override", "%s/%s" % (config, tk), why is None,
                           "impl overrides the default fmt with something other than that default specialised to the type (%s)" % why, imp["span"])
    # the generic formatting bodies contain cfg-dependent code: repeat their
    # rules on the no_std builds of both back-ends
    for config in ("f64-nostd", "dec-nostd"):
        w = ws.load(config)
        ctx.configs.append(config)
        amt = ws.amount_type(config)
        quantity_fmt(ctx, config, w.U, amt)
        single_sign(ctx, config, w.U, amt)
        unit_fmt(ctx, config, w.U)
        rate_fmt(ctx, config, w.U)
    ctx.rule_text = "Quantity::fmt: 8 guard cases (symbol empty x sign x precision); Unit::fmt; Rate Display: 6 cases; one forwarder per generated Display impl"
    ctx.trusted = ["format_args! byte-code layout of the pinned toolchain (decoded, fail-closed)",
                   "std / fpdec formatting: digit generation, rounding at a precision, width/fill/alignment handling, Formatter::pad_integral, the '+' flag"]
    ctx.assumptions = ["NOT decided: that the amount text parses back to the stored amount, correct rounding at a precision, character counting of width — properties of std/fpdec formatting code"]
    ctx.explanation = ("Structure of the text output by data-flow: every generated Display impl forwards to Quantity::fmt / Unit::fmt with the caller's formatter; "
                       "Quantity::fmt writes exactly once, through pad_integral(amount >= 0, \"\", \"{|amount|} {unit}\") with the precision forwarded iff given, or the bare amount "
                       "for unit-less values; Unit::fmt is the symbol under string formatting; Rate writes 'term / per' omitting a per-multiple of one.")
