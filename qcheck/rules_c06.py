"""C06 — dimensional type safety of quantity arithmetic (impl-table rules).

quick: the complete operator-impl table of the type-checked crates equals the
closure of the declared derivations and is dimensionally consistent.
thorough: additionally rustc's own verdict on the generated 15x15x6 matrix of
one-line programs (compile-fail witnesses at scale), see witness_c06.py."""
import json
import os

from . import decls as D, model, oracle, ws
from .model import ModelError

AMT = "AmountT"


def strip(k):
    return k[1:] if k.startswith("&") else k


def derived_closure(R, A, op, B):
    """By-value operator entries generated for R = A op B."""
    if op == "*":
        s = {("*", A, B, R), ("/", R, B, A)}
        if A != B:
            s |= {("*", B, A, R), ("/", R, A, B)}
        return s
    s = {("/", A, B, R), ("*", R, B, A), ("/", A, R, B)}
    if R != B:
        s.add(("*", B, R, A))
    return s


def with_ref_forms(entries):
    res = set()
    for (op, a, b, r) in entries:
        res |= {(op, a, b, r), (op, "&" + a, b, r), (op, a, "&" + b, r), (op, "&" + a, "&" + b, r)}
    return res


def resolve_ident(name, scope, qtypes, amt):
    if name == AMT:
        return amt
    cands = [q for q in qtypes if q.name == name]
    same = [q for q in cands if q.path.rsplit("::", 1)[0] == scope]
    if len(same) == 1:
        return same[0].path
    crate = scope.split("::")[0]
    incr = [q for q in cands if q.path.split("::")[0] == crate]
    if len(incr) == 1:
        return incr[0].path
    return None


def check_crate(ctx, config, w, crate, dims, counts):
    U = w.U
    amt = "fpdec::Decimal" if "dec" in config else "f64"
    qts = [q for q in w.qtypes if q.crate is crate and q.kind != "dimless"]
    if not qts:
        return
    label = "%s/%s" % (config, crate.name)
    qpaths = {q.path for q in qts}
    upaths = {q.unit_path: q for q in qts}
    actual = {}
    for (op, s, r, out, imp) in U.op_impls(crate):
        actual.setdefault((op, s, r, out), []).append(imp)
    # ---- expected table ---------------------------------------------------
    expected = set()
    by_value_derived = set()
    for q in qts:
        Q, UQ = q.path, q.unit_path
        expected |= {("+", Q, Q, Q), ("-", Q, Q, Q), ("/", Q, Q, amt),
                     ("*", amt, UQ, Q), ("*", UQ, amt, Q), ("*", amt, Q, Q), ("*", Q, amt, Q), ("/", Q, amt, Q),
                     ("*", Q, "quantities::rate::Rate<$G0,%s>" % Q, "$G0"), ("/", Q, "quantities::rate::Rate<%s,$G0>" % Q, "$G0")}
        d = w.decl_of.get(Q)
        if d is None or d.derived is None:
            continue
        (A, op, B) = d.derived
        scope = Q.rsplit("::", 1)[0]
        Ap, Bp = resolve_ident(A, scope, w.qtypes, amt), resolve_ident(B, scope, w.qtypes, amt)
        if Ap is None or Bp is None or op not in ("*", "/"):
            ctx.fail("derivation-resolve", "%s/%s" % (label, Q), "cannot resolve the declared derivation %s %s %s" % (A, op, B), "%s:%d" % (d.file, d.line_start))
            continue
        dv = derived_closure(Q, Ap, op, Bp)
        by_value_derived |= dv
        counts["derivations"].add((config, Q))
    expected |= with_ref_forms(by_value_derived)
    if crate.name == "quantities":
        expected |= {("*", "quantities::rate::Rate<$G0,$G1>", "$G1", "$G0"), ("*", amt, "quantities::One", amt), ("*", "quantities::One", amt, amt)}
    counts["by_value_derived"] |= {(config,) + e for e in by_value_derived}
    counts["derived_impls"] |= {(config,) + e for e in with_ref_forms(by_value_derived)}
    # ---- exactness (rule 3/4) -----------------------------------------------
    for e in sorted(expected - set(actual)):
        ctx.fail("impl-missing", "%s/%s" % (label, fmt(e)), "operator impl `%s` follows from the declarations but does not exist" % fmt(e), crate.src)
    # borrowed-operand variants of the scaling operators (&q * k, k * &q, &q / k, &unit * k, ...) are the same
    # dimensionally sound operations as their by-value forms; their bodies are C08's business
    scalar = set()
    for q in qts:
        Q, UQ = q.path, q.unit_path
        scalar |= {("*", amt, UQ, Q), ("*", UQ, amt, Q), ("*", amt, Q, Q), ("*", Q, amt, Q), ("/", Q, amt, Q)}
    optional = set()
    for (op, s_, r_, o_) in scalar:
        for sv in (s_, "&" + s_):
            for rv in (r_, "&" + r_):
                if (sv, rv) != (s_, r_):
                    optional.add((op, sv, rv, o_))
    # borrowed-operand variants of the per-quantity rate operators (C13 checks that they forward)
    for q in qts:
        Q = q.path
        for (op, rk) in (("*", "quantities::rate::Rate<$G0,%s>" % Q), ("/", "quantities::rate::Rate<%s,$G0>" % Q)):
            for sv in (Q, "&" + Q):
                for rv in (rk, "&" + rk):
                    if (sv, rv) != (Q, rk):
                        optional.add((op, sv, rv, "$G0"))
    if crate.name == "quantities":
        # the dimensionless analogue of the per-quantity rate operators (value x rate-per-value, value / rate) and
        # borrowed-operand variants of `rate * value`: dimensionally the same operations as the forms above
        for (op, rk) in (("*", "quantities::rate::Rate<$G0,%s>" % amt), ("/", "quantities::rate::Rate<%s,$G0>" % amt)):
            for sv in (amt, "&" + amt):
                for rv in (rk, "&" + rk):
                    optional.add((op, sv, rv, "$G0"))
        import re
        proj = re.compile(r"^<&?quantities::rate::Rate<\w+, \w+> as core::ops::arith::Mul<&?\w+>>::Output$")
        for e in set(actual) - expected:
            if e[0] == "*" and e[1].lstrip("&") == "quantities::rate::Rate<$G0,$G1>" and e[2].lstrip("&") == "$G1" and (e[1], e[2]) != ("quantities::rate::Rate<$G0,$G1>", "$G1") \
                    and (e[3] == "$G0" or proj.match(e[3])):
                optional.add(e)
    for e in sorted(set(actual) - expected):
        if e in optional:
            ctx.ob("impl-table", "%s/%s" % (label, fmt(e)), len(actual[e]) == 1, "impl `%s` exists %d times" % (fmt(e), len(actual[e])), actual[e][0]["span"], nontrivial=False)
            continue
        ctx.fail("impl-extra", "%s/%s" % (label, fmt(e)),
                 "operator impl `%s` exists but is not justified by any declaration (a pairing the derivations do not show would type-check)" % fmt(e),
                 actual[e][0]["span"])
    for e in sorted(expected & set(actual)):
        ctx.ob("impl-table", "%s/%s" % (label, fmt(e)), len(actual[e]) == 1, "impl `%s` exists %d times" % (fmt(e), len(actual[e])), actual[e][0]["span"])
    # ---- rule 5: genericity ---------------------------------------------------
    for e, imps in actual.items():
        for imp in imps:
            tparams = [g["name"] for g in imp["generics"] if g["kind"] == "type"]
            ok = not tparams or (e[2].lstrip("&").startswith("quantities::rate::Rate<") and len(tparams) == 1) or e[1].lstrip("&").startswith("quantities::rate::Rate<")
            ctx.ob("no-blanket-impl", "%s/%s" % (label, fmt(e)), ok, "operator impl `%s` is generic over %s" % (fmt(e), tparams), imp["span"], nontrivial=False)
    # ---- rule 1: like-with-like ------------------------------------------------
    for (op, s, r, imp) in U.cmp_impls(crate):
        if strip(s) in qpaths or strip(r) in qpaths:
            ctx.ob("cmp-like-with-like", "%s/%s %s %s" % (label, s, op, r), s == r and s in qpaths,
                   "comparison impl %s for %s with Rhs %s" % (op, s, r), imp["span"])
    for (op, s, r, out) in actual:
        if op in ("+", "-") and (strip(s) in qpaths or strip(r) in qpaths):
            ctx.ob("addsub-like-with-like", "%s/%s" % (label, fmt((op, s, r, out))), s == r == out and s in qpaths,
                   "`%s`: + and - must be like with like" % fmt((op, s, r, out)), actual[(op, s, r, out)][0]["span"])
    # ---- rule 2: dimensions -------------------------------------------------------
    for (op, s, r, out) in actual:
        if op not in ("*", "/"):
            continue
        ss, rr, oo = strip(s), strip(r), out
        def dim(k):
            if k == amt:
                return dims.get(AMT)
            return dims.get(k)
        if (ss in qpaths or ss == amt) and (rr in qpaths or rr == amt) and (ss in qpaths or rr in qpaths):
            ds, dr, do = dim(ss), dim(rr), dim(oo)
            if ds is None or dr is None or do is None:
                continue  # fixtures: no oracle entry
            want = [x + y if op == "*" else x - y for x, y in zip(ds, dr)]
            ctx.ob("dimension", "%s/%s" % (label, fmt((op, s, r, out))), want == do,
                   "`%s`: dimension of the result %s is not dim(lhs) %s dim(rhs) = %s" % (fmt((op, s, r, out)), do, "+" if op == "*" else "-", want),
                   actual[(op, s, r, out)][0]["span"])
    # number / quantity: only where declared
    for (op, s, r, out) in actual:
        if op == "/" and strip(s) == amt and strip(r) in qpaths:
            ok = (op, strip(s), strip(r), out) in by_value_derived
            ctx.ob("number-div-quantity", "%s/%s" % (label, fmt((op, s, r, out))), ok,
                   "a bare number can be divided by %s although that is not a declared divisor" % r, actual[(op, s, r, out)][0]["span"])
    counts["qtypes"] |= {(config, q.path) for q in qts}


def fmt(e):
    return "%s %s %s -> %s" % (e[1], e[0], e[2], e[3])


def declared_vs_oracle(ctx, w, config):
    """The declared derivations equal the independently written defining equations."""
    orc = json.load(open(os.path.join(oracle.ODIR, "derivations.json")))
    for crate_name, eqs in orc.items():
        if crate_name.startswith("_"):
            continue
        want = {(r, a, op, b) for (r, a, op, b) in eqs}
        got = set()
        where = {}
        for q in w.qtypes:
            if q.crate.name != crate_name or q.crate.is_test:
                continue
            d = w.decl_of.get(q.path)
            if d is not None and d.derived is not None:
                got.add((q.name,) + tuple(d.derived))
                where[q.name] = "%s:%d" % (d.file, d.line_start)
        if not any(q.crate.name == crate_name for q in w.qtypes):
            continue
        for e in sorted(want - got):
            ctx.fail("derivation-oracle", "%s/%s/%s" % (config, crate_name, e[0]),
                     "defining equation %s = %s %s %s is not what the catalogue declares (%s)" % (e + (sorted(g for g in got if g[0] == e[0]),)), where.get(e[0]))
        for e in sorted(got - want):
            if not any(x[0] == e[0] for x in want):
                # a quantity the oracle does not know (added to the catalogue later): nothing independent to compare its
                # declaration with — reported as unverified in the evidence, not as a violation; its operators are still
                # checked against the closure of this declaration and (where the operands are known) dimensionally
                ctx.unverified.append("%s/%s: declared derivation %s = %s %s %s is not in oracle/derivations.json" % ((config, crate_name) + e))
                ctx.ob("derivation-oracle", "%s/%s/%s" % (config, crate_name, e[0]), True, "", where.get(e[0]), nontrivial=False)
        for e in sorted(got & want):
            ctx.ob("derivation-oracle", "%s/%s/%s" % (config, crate_name, e[0]), True, "")


def run(ctx):
    dims = json.load(open(os.path.join(oracle.ODIR, "dimensions.json")))["quantities"]
    counts = {"derivations": set(), "by_value_derived": set(), "derived_impls": set(), "qtypes": set()}
    for config in ("f64-all", "dec-all"):
        w = ws.load(config)
        ctx.configs.append(config)
        for d in w.un_d:
            ctx.fail("linkage", "%s/%s" % (config, d.key), "declared quantity has no generated type", "%s:%d" % (d.file, d.line_start))
        declared_vs_oracle(ctx, w, config)
        for crate in w.crates:
            check_crate(ctx, config, w, crate, dims, counts)
    f = lambda s, c, pfx: len([x for x in s if x[0] == c and any(str(y).startswith(pfx) for y in x[1:])])
    ctx.floor("f64-all catalogue quantity types", len([x for x in counts["qtypes"] if x[0] == "f64-all" and x[1].startswith("quantities::")]), 14)
    ctx.floor("f64-all catalogue derivations", len([x for x in counts["derivations"] if x[0] == "f64-all" and x[1].startswith("quantities::")]), 9)
    ctx.floor("f64-all catalogue by-value derived operators", len([x for x in counts["by_value_derived"] if x[0] == "f64-all" and x[4].startswith(("quantities::", "f64"))
                                                                    and (x[2].startswith("quantities::") or x[3].startswith("quantities::"))]), 34)
    ctx.floor("dec-all catalogue by-value derived operators", len([x for x in counts["by_value_derived"] if x[0] == "dec-all" and
                                                                    (x[2].startswith("quantities::") or x[3].startswith("quantities::"))]), 34)
    if ctx.tier == "thorough":
        from . import witness_c06
        witness_c06.run(ctx)
    ctx.exhaustive = True
    ctx.rule_text = "one obligation per operator impl of every modelled crate (exactness vs the closure of the declarations, dimensions, genericity, like-with-like)"
    ctx.trusted = ["rustc trait selection: a binary operator expression on concrete operand types type-checks iff the impl table has a matching entry "
                   "(operators do not auto-ref)", "oracle/dimensions.json, oracle/derivations.json"]
    ctx.explanation = ("The impl table IS the set of well-typed operator programs. It is enumerated from the type-checked crates in both back-ends and must equal the "
                       "closure of the declared derivations plus the per-type standard set; every Mul/Div entry is dimensionally consistent with an independent "
                       "dimension table; no operator impl is generic except the Rate forms.")
