"""C02 — cross-unit comparison is physically correct and order-independent."""
from fractions import Fraction

from . import generic as G, model, ratfun, spec as S, term as T, ws
from .model import ModelError

a_, b_ = S.P(0, "self"), S.P(1, "other")
ONE = ("num", Fraction(1), None)


def subst(t, mapping):
    t = T.canon(t)
    if t in mapping:
        return mapping[t]
    if not isinstance(t, tuple):
        return t
    h = t[0]
    if h == "app":
        return ("app", t[1], t[2], tuple(subst(x, mapping) for x in t[3]))
    if h in ("p", "num", "str", "bool", "unit", "variant", "none", "const", "panic", "closure"):
        return t
    if h == "adt":
        return ("adt", t[1], t[2], tuple((n, subst(x, mapping)) for n, x in t[3]))
    if h in ("tuple", "array"):
        return (h, tuple(subst(x, mapping) for x in t[1]))
    return (h,) + tuple(subst(x, mapping) if isinstance(x, tuple) else x for x in t[1:])


def is_one(t):
    return t[0] == "num" and t[1] == 1


def simp(t):
    """x/x -> 1 (x a scale: finite, non-zero by C01.6), 1*y -> y, y/1 -> y."""
    if not isinstance(t, tuple):
        return t
    h = t[0]
    if h in ("p", "num", "str", "bool", "unit", "variant", "none", "const", "panic", "closure"):
        return t
    if h == "app":
        return ("app", t[1], t[2], tuple(simp(x) for x in t[3]))
    args = [simp(x) if isinstance(x, tuple) else x for x in t[1:]]
    if h == "/" and T.canon(args[0]) == T.canon(args[1]) and is_scale(args[0]):
        return ("num", Fraction(1), "amount")
    if h == "*":
        if is_one(args[0]):
            return args[1]
        if is_one(args[1]):
            return args[0]
    if h == "/" and is_one(args[1]):
        return args[0]
    return T.canon((h,) + tuple(args))


def is_scale(t):
    return t[0] == "app" and t[1] == "LinearScaledUnit::scale"


def order_val(atom, rank):
    """Truth value of an order atom over leaves with known ranks, else None."""
    h = atom[0]
    if h in ("<", "<=", "==") and T.canon(atom[1]) in rank and T.canon(atom[2]) in rank:
        x, y = rank[T.canon(atom[1])], rank[T.canon(atom[2])]
        return {"<": x < y, "<=": x <= y, "==": x == y}[h]
    return None


def cases():
    ua, ub = S.unit(a_), S.unit(b_)
    sa, sb = S.scale(ua), S.scale(ub)
    U = T.canon(("==", ua, ub))
    yield "same-unit", U, True, {sa: 0, sb: 0}, {ub: ua, sb: sa}
    yield "scale(a)<scale(b)", U, False, {sa: 0, sb: 1}, {}
    yield "scale(a)==scale(b),units differ", U, False, {sa: 0, sb: 0}, {sb: sa}
    yield "scale(a)>scale(b)", U, False, {sa: 1, sb: 0}, {}


def resolve(outs, U, uval, rank):
    """The outcomes consistent with the case; unknown atoms are enumerated by
    the caller via T.assignments."""
    res = []
    atoms = T.guard_atoms(outs)
    known = {}
    unknown = []
    for at in atoms:
        if at == U:
            known[at] = uval
        else:
            v = order_val(at, rank)
            if v is None:
                unknown.append(at)
            else:
                known[at] = v
    for asg in T.assignments(unknown):
        full = dict(known)
        full.update(asg)
        res.append((asg, T.select(outs, full)))
    return res


def generic_rules(ctx, config, U):
    convs = {}
    amt_a, amt_b = S.amount(a_), S.amount(b_)
    ua, ub = S.unit(a_), S.unit(b_)
    sa, sb = S.scale(ua), S.scale(ub)
    summ = {}
    for fn in ("eq", "partial_cmp"):
        outs_ab, body, _ = G.summarize(U, G.HRU + fn, G.INL_CONV)
        outs_ba, _, _ = G.summarize(U, G.HRU + fn, G.INL_CONV, args=[b_, a_])
        summ[fn] = (outs_ab, outs_ba, body)
        ctx.sample({"function": G.HRU + fn, "summary": "; ".join("[%s] %s" % (T.show_guard(g), T.show(t)) for g, k, t in outs_ab)})
    head = {"eq": "==", "partial_cmp": "pcmp"}
    for cname, Uatom, uval, rank, eqs in cases():
        mapping = {T.canon(k): T.canon(v) for k, v in eqs.items()}
        pair = {}
        for fn in ("eq", "partial_cmp"):
            outs_ab, outs_ba, body = summ[fn]
            where = body["span"]
            inst = "%s/%s/%s" % (config, fn, cname)
            rab = resolve(outs_ab, Uatom, uval, rank)
            rba = resolve(outs_ba, Uatom, uval, rank)
            ok_shape = True
            for lab, rr in (("(a,b)", rab), ("(b,a)", rba)):
                for asg, sel in rr:
                    if len(sel) != 1 or sel[0][0] != "val" or sel[0][1][0] != head[fn]:
                        ctx.fail("shape", inst, "%s%s: expected a single comparison of two amounts, found %s"
                                 % (fn, lab, [(k, T.show(t)) for k, t in sel]), where)
                        ok_shape = False
            if not ok_shape:
                continue
            # all unknown-atom assignments must agree (extra conditions must be irrelevant)
            def norm(sel):
                t = sel[0][1]
                x, y = simp(subst(t[1], mapping)), simp(subst(t[2], mapping))
                return (T.canon(x), T.canon(y))
            xs_ab = {norm(sel) for _, sel in rab}
            xs_ba = {norm(sel) for _, sel in rba}
            if len(xs_ab) != 1 or len(xs_ba) != 1:
                ctx.fail("shape", inst, "result depends on a condition outside the specification's case split", where)
                continue
            (X, Y) = next(iter(xs_ab))
            (X2, Y2) = next(iter(xs_ba))
            pair[fn] = (X, Y)
            # 2. same-unit case reduces to the bare amount comparison [E]
            if cname == "same-unit":
                if fn == "eq":
                    ok = {X, Y} == {T.canon(amt_a), T.canon(subst(amt_b, {}))} or {X, Y} == {T.canon(amt_a), T.canon(amt_b)}
                else:
                    ok = (X, Y) == (T.canon(amt_a), T.canon(amt_b))
                ctx.ob("same-unit-bare", inst, ok,
                       "with equal units %s compares %s with %s instead of the two stored amounts" % (fn, T.show(X), T.show(Y)), where)
            # 3. physical correctness [R]: both sides expressed in one common unit k
            okp = False
            nconv = None
            for (L, Rr) in (((X, Y)), ((Y, X))) if fn == "eq" else ((X, Y),):
                for sk in (sa, sb):
                    sk_ = simp(subst(sk, mapping))
                    l_ok = ratfun.same_real_function(("*", L, sk_), simp(subst(("*", amt_a, sa), mapping)))
                    r_ok = ratfun.same_real_function(("*", Rr, sk_), simp(subst(("*", amt_b, sb), mapping)))
                    if l_ok and r_ok:
                        okp = True
                        nconv = (ratfun.count_roundings(L) > 0) + (ratfun.count_roundings(Rr) > 0)
            ctx.ob("physical", inst, okp,
                   "%s compares %s with %s, which are not the two magnitudes expressed in one common unit" % (fn, T.show(X), T.show(Y)), where)
            if okp:
                ctx.ob("one-conversion", inst, nconv <= 1, "both operands are converted (error of two conversions)", where)
                convs.setdefault(cname, []).extend((fn, t, where) for t in (X, Y) if ratfun.count_roundings(t) > 0)
            # 4. swap symmetry [E]
            if fn == "eq":
                ok = {X, Y} == {X2, Y2}
                msg = ("a == b evaluates %s == %s but b == a evaluates %s == %s: the two rounded operand pairs differ, so the "
                       "answers can disagree for magnitudes that coincide (e.g. 12 in vs 1 ft)" % (T.show(X), T.show(Y), T.show(X2), T.show(Y2)))
            else:
                ok = (X, Y) == (Y2, X2)
                msg = ("partial_cmp(a, b) compares (%s, %s) but partial_cmp(b, a) compares (%s, %s): not the same two numbers in "
                       "opposite order, so a < b and b > a can disagree" % (T.show(X), T.show(Y), T.show(X2), T.show(Y2)))
            ctx.ob("swap-symmetry", inst, ok, msg, where)
        # 5. eq and partial_cmp compare the same pair
        if "eq" in pair and "partial_cmp" in pair:
            ok = set(pair["eq"]) == set(pair["partial_cmp"])
            ctx.ob("eq-iff-cmp-equal", "%s/%s" % (config, cname), ok,
                   "== compares %s but partial_cmp compares %s" % (tuple(map(T.show, pair["eq"])), tuple(map(T.show, pair["partial_cmp"]))),
                   summ["eq"][2]["span"])
    return convs


# relative error allowed for the effective conversion coefficient in the
# decimal back-end: a ratio >= 1 rounded to 18 fractional digits is off by at
# most 5e-19 relative; twice that is accepted
COEF_TOL = Fraction(1, 10 ** 18)
ABS_TOL = Fraction(1, 10 ** 18)


def conversion_accuracy(ctx, config, w, convs):
    """Decimal back-end: for every reference-unit type and every ordered unit
    pair, the conversion the comparison applies (the term of the pair's case)
    must scale the amount by the exact scale ratio up to one rounding of an
    18-digit ratio >= 1.  A conversion by a rounded ratio < 1 (or by dividing
    through it) loses up to 14 digits for far-apart units."""
    from . import accuracy
    ua, ub = S.unit(a_), S.unit(b_)
    sa, sb = T.canon(S.scale(ua)), T.canon(S.scale(ub))
    amounts = {T.canon(S.amount(a_)), T.canon(S.amount(b_))}
    n = 0
    for q in w.qtypes:
        if q.kind != "ref" or "scale" not in q.tables:
            continue
        rows = [(v, q.tables["scale"][v][1]) for v in q.variants_const]
        for (u, su) in rows:
            for (v, sv) in rows:
                if u == v:
                    continue
                cname = "scale(a)<scale(b)" if su < sv else "scale(a)>scale(b)" if su > sv else "scale(a)==scale(b),units differ"
                for (fn, t, where) in convs.get(cname, ()):
                    inst = "%s/%s/%s/%s->%s" % (config, fn, q.path, u, v)
                    try:
                        r = accuracy.analyse(t, {sa: su, sb: sv}, amounts)
                    except accuracy.Overflow as x:
                        ctx.ob("conversion-accuracy", inst, False, "comparing %s with %s (%s) panics in the decimal back-end for every amount: %s" % (u, v, q.path, x), where, nontrivial=False)
                        continue
                    except accuracy.Unsupported as x:
                        ctx.fail("conversion-accuracy", inst, "unsupported conversion term: %s" % x, where)
                        continue
                    n += 1
                    if r[0] != "l":
                        ctx.fail("conversion-accuracy", inst, "conversion term does not depend on the amount", where)
                        continue
                    rel = abs(r[1] - r[2]) / abs(r[2])
                    ctx.ob("conversion-accuracy", inst, rel <= COEF_TOL and r[3] <= ABS_TOL,
                           "comparing %s with %s of %s scales the amount by %s where the exact scale ratio is %s (relative error %.3g, allowed %.1g; "
                           "absolute rounding %.3g): magnitudes that differ by far more than one rounding of the amount type compare wrongly — term %s"
                           % (u, v, q.path, float(r[1]), float(r[2]), float(rel), float(COEF_TOL), float(r[3]), T.show(t)), where, nontrivial=False)
    return n


def forwarders(ctx, config, w):
    U = w.U
    n = 0
    for q in w.qtypes:
        if q.kind != "ref":
            continue
        for trait, fn, allowed in (("core::cmp::PartialEq", "eq", {"eq"}), ("core::cmp::PartialOrd", "partial_cmp", {"partial_cmp"})):
            imps = [i for i in q.crate.impls if i.get("trait") == trait and model.ty_key(i["self_ty"]) == q.path]
            inst = "%s/%s/%s" % (config, q.path, fn)
            if len(imps) != 1:
                ctx.fail("forwarder", inst, "expected exactly one impl %s for %s, found %d" % (trait, q.path, len(imps)), q.span)
                continue
            imp = imps[0]
            rhs = model.ty_key(imp["trait_args"][1]) if len(imp["trait_args"]) > 1 else q.path
            names = {i["name"] for i in imp["items"]}
            ctx.ob("forwarder-items", inst, names == allowed and rhs == q.path,
                   "impl %s<%s> for %s provides %s (expected only %s, Rhs = Self): the remaining operators would not be the std defaults"
                   % (trait, rhs, q.path, sorted(names), sorted(allowed)), imp["span"])
            b = U.item_body(imp, fn)
            if b is None:
                ctx.fail("forwarder", inst, "no body", imp["span"])
                continue
            ev = T.Evaluator(U, keep_tags=True)
            try:
                outs = ev.summarize(b)
            except T.Unsupported as x:
                ctx.fail("forwarder", inst, "unsupported construct: " + x.what, x.sp or b["span"])
                continue
            want = ("app", "HasRefUnit::" + fn, q.path, (S.P(0, "self"), S.P(1, "other")))
            ok = len(outs) == 1 and not outs[0][0] and S.match(T.canon(outs[0][2]), want) is None
            ctx.ob("forwarder", inst, ok,
                   "%s::%s of %s is %s, expected the forwarder <%s as HasRefUnit>::%s(self, other)"
                   % (trait.split("::")[-1], fn, q.path, "; ".join(T.show(T.canon(o[2])) for o in outs), q.name, fn), b["span"])
            n += 1
        # Eq marker impl only (no methods)
    return n


def run(ctx):
    for config in ("f64-all", "dec-all") + (("f64-nostd", "dec-nostd") if ctx.tier == "thorough" else ()):
        w = ws.load(config)
        ctx.configs.append(config)
        convs = generic_rules(ctx, config, w.U)
        if config.startswith("dec"):
            na = conversion_accuracy(ctx, config, w, convs)
            ctx.floor("%s: unit pairs x comparison operators with analysed conversion accuracy" % config, na, 1000)
        n = forwarders(ctx, config, w)
        G.unit_identity(ctx, config, w)
        ctx.floor("%s: comparison forwarders of reference-unit types" % config, n, 2 * {"f64-all": 23, "dec-all": 19}.get(config, 13))
        from . import ovequiv
        for trait, allowed, label, rel in ((model.T_HRU, {"REF_UNIT"}, "HasRefUnit", {"eq", "partial_cmp", "equiv_amount"}),
                                           (model.T_LSU, {"REF_UNIT", "scale"}, "LinearScaledUnit", {"ratio"})):
            for tk, (extra, imp) in G.overrides(ctx, "override", w.U, trait, allowed, label).items():
                extra = [x for x in extra if x in rel]
                if extra:
                    extra = ovequiv.filter_equivalent(ctx, "override", config, w, label, tk, extra, imp)
                if extra:
                    ctx.fail("override", "%s/%s" % (config, tk), "impl %s for %s overrides %s with something other than the default specialised to this type"
                             % (label, tk, extra) + ovequiv.reasons(ctx, config, tk, label, extra), imp["span"])
    ctx.rule_text = ("per configuration: 4 ordering cases x {eq, partial_cmp} x {same-unit form, physical correctness, at most one conversion, "
                     "swap symmetry} on the generic bodies, plus one forwarder obligation per reference-unit type and operator trait")
    ctx.trusted = ["rustc THIR construction and trait resolution", "std: !=, <, <=, >, >= are the PartialEq/PartialOrd defaults derived from eq / partial_cmp",
                   "x/x = 1 and 1*y = y exactly in IEEE-754 and fpdec for finite non-zero x"]
    ctx.assumptions = ["NaN amounts are excluded by the property and not analysed"]
    ctx.explanation = ("HasRefUnit::eq / partial_cmp are summarised as gated operand trees for (a,b) and (b,a); over the finite case split on unit equality "
                       "and scale order the two summaries must compare the same two rounded numbers (exact trees), each being the magnitude in one common unit "
                       "(rational-function check). Generated PartialEq/PartialOrd impls are checked to forward to these bodies and to provide nothing else.")
