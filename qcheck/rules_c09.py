"""C09 — unit registry is complete, ordered and invertible."""
from fractions import Fraction

from . import decls as D, generic as G, model, spec as S, term as T, ws
from .model import ModelError, peel

ITER = "core::iter::traits::iterator::Iterator::"
SLICE_ITER = "core::slice::<impl [T]>::iter"


def single_val(outs):
    if len(outs) == 1 and not outs[0][0] and outs[0][1] == "val":
        return T.canon(outs[0][2])
    return None


def key_only_compared(outs, ev, ops):
    """The lookup key (parameter 0) may occur only as a direct operand of the
    comparison operators `ops` — in guards, results and closure bodies.  Then
    the function is decided by a finite partition of the key domain."""
    bad = []

    def walk(t, in_cmp, where):
        if not isinstance(t, tuple):
            return
        if t[0] == "p" and t[1] == 0:
            if not in_cmp:
                bad.append(where)
            return
        if t[0] == "closure":
            u = T.P(100, "u")
            for (g, k, x) in ev.summarize_closure(t, [u]):
                for a, _p in g:
                    walk(a, False, "closure guard")
                walk(x, False, "closure body")
            for _vid, cap in t[2]:
                if cap[0] == "p" and cap[1] == 0:
                    continue
                walk(cap, False, "closure capture")
            return
        if t[0] in ops:
            for x in t[1:]:
                walk(x, True, where)
            return
        if t[0] == "app":
            for x in t[3]:
                walk(x, False, "argument of " + t[1])
            return
        if t[0] in ("num", "str", "bool", "variant", "none", "const", "unit"):
            return
        for x in t[1:]:
            walk(x, False, where)
    for (g, k, t) in outs:
        for a, _p in g:
            walk(a, False, "guard")
        walk(t, False, "result")
    return bad


LOOKUPS = ((G.UNIT + "from_symbol", "symbol", "Unit::from_symbol"),
           (G.QTY + "unit_from_symbol", "symbol", "Quantity::unit_from_symbol"),
           (G.LSU + "from_scale", "scale", "LinearScaledUnit::from_scale"),
           (G.HRU + "unit_from_scale", "scale", "HasRefUnit::unit_from_scale"))


def lookup_summaries(ctx, config, U, overrides=None, tag=""):
    """Gated summaries of the four lookups (delegation between them inlined; for a type that overrides one of them,
    its own bodies); the key must be used in comparisons only."""
    res = {}
    for path, kind, label in LOOKUPS:
        outs, b, ev = G.summarize(U, path, {"*"}, stop=G.STOP_LOOKUP, overrides=overrides)
        try:
            bad = key_only_compared(outs, ev, ("==",) if kind == "symbol" else ("==", "<", "<="))
        except T.Unsupported as x:
            bad = ["unsupported closure: " + x.what]
        ctx.ob("lookup-key-use", "%s/%s%s" % (config, label, tag), not bad,
               "%s uses its key outside comparisons (%s): the finite key partition would not decide it" % (label, bad), b["span"])
        ctx.sample({"function": path, "summary": "; ".join("[%s] %s" % (T.show_guard(g), T.show(t)) for g, k, t in outs)[:400]})
        if not bad:
            res[label] = (kind, outs, b, ev)
    return res


LK = {"Unit::from_symbol", "Quantity::unit_from_symbol", "LinearScaledUnit::from_scale", "HasRefUnit::unit_from_scale"}


def lookups_of_type(ctx, config, w, q, generic_lookups, counts):
    ov = {k: v for k, v in G.type_overrides(w.U, q).items() if k in LK}
    if ov:
        # this type overrides a lookup: its own bodies are evaluated on its own table
        own = lookup_summaries(ctx, config, w.U, overrides=ov, tag="/" + q.path)
        lookup_results(ctx, config, w, q, own, counts)
        counts["overridden_lookups"] = counts.get("overridden_lookups", 0) + 1
    else:
        lookup_results(ctx, config, w, q, generic_lookups, counts)


def lookup_results(ctx, config, w, q, lookups, counts):
    """Every lookup evaluated on the type's tables for every key class: each
    symbol / scale of the table (expected: the FIRST unit in iteration order
    carrying it), the empty string, a string / the scale cells that no unit
    carries, and NaN in f64 (expected: None)."""
    from . import conc, rules_c05
    vc = q.variants_const
    for label, (kind, outs, b, ev) in sorted(lookups.items()):
        if kind == "scale" and (q.kind not in ("ref", "dimless") or "scale" not in q.tables):
            continue
        if kind == "symbol":
            tbl = {v: q.tables["symbol"][v][1] for v in vc}
            keys = [(repr(k), k) for k in sorted(set(tbl.values()) | {""})] + [("<a string no unit carries>", "\x00qv\x00")]
        else:
            tbl = {v: q.tables["scale"][v][1] for v in vc}
            keys = [(n, x) for (n, x) in rules_c05.cells(q)]
            if config.startswith("f64"):
                keys.append(("NaN", float("nan")))
        for (kname, key) in keys:
            inst = "%s/%s/%s/%s" % (config, q.path, label, kname)
            want = next((v for v in vc if tbl[v] == key), None)
            try:
                r = conc.Conc(w.U, q, ev).pick(outs, {0: key})
            except conc.ModelPanic as x:
                ctx.fail("lookup-result", inst, "%s(%s) panics: %s" % (label, kname, x), b["span"])
                continue
            except (conc.CannotEvaluate, T.Unsupported) as x:
                ctx.fail("lookup-result", inst, "cannot evaluate the lookup model: %s" % x, b["span"])
                continue
            got = r[1] if r is not None else None
            counts["lookups"] = counts.get("lookups", 0) + 1
            ctx.ob("lookup-result", inst, got == want,
                   "%s(%s) on %s yields %s, specified: %s" % (label, kname, q.path, got, want if want else "None (no unit carries it)"),
                   b["span"], nontrivial=False)


def generic_rules(ctx, config, U, w=None):
    # iter_units is the unit type's iterator
    outs, b, _ = G.summarize(U, G.QTY + "iter_units", set())
    ctx.ob("iter-units", config, single_val(outs) == ("app", "Unit::iter", None, ()),
           "Quantity::iter_units is %s, expected UnitType::iter()" % [T.show(o[2]) for o in outs], b["span"])
    # is_ref_unit(u) == (u == REF_UNIT)
    outs, b, _ = G.summarize(U, G.LSU + "is_ref_unit", set())
    want = T.canon(("==", S.P(0, "self"), ("const", "LinearScaledUnit::REF_UNIT", None)))
    ctx.ob("is-ref-unit", config, single_val(outs) == want,
           "is_ref_unit is %s, expected self == REF_UNIT" % [T.show(o[2]) for o in outs], b["span"])
    # as_qty(u) == new(AMNT_ONE, u)
    outs, b, _ = G.summarize(U, G.UNIT + "as_qty", set())
    t = single_val(outs)
    ok = (t is not None and t[0] == "app" and t[1] == "Quantity::new" and len(t[3]) == 2 and t[3][1] == S.P(0, "self")
          and t[3][0][0] == "num" and t[3][0][1] == 1)
    ctx.ob("as-qty", config, ok, "as_qty is %s, expected new(1, self)" % [T.show(o[2]) for o in outs], b["span"])
    # no overrides of the lookups / iter_units / as_qty
    for trait, allowed, label in ((model.T_UNIT, {"QuantityType", "iter", "name", "symbol", "si_prefix", "<rpitit>"}, "Unit"),
                                  (model.T_LSU, {"REF_UNIT", "scale"}, "LinearScaledUnit"),
                                  (model.T_QUANTITY, {"UnitType", "new", "amount", "unit"}, "Quantity"),
                                  (model.T_HRU, {"REF_UNIT"}, "HasRefUnit")):
        for tk, (extra, imp) in G.overrides(ctx, "override", U, trait, allowed, label).items():
            if label == "HasRefUnit" and tk in model.AMOUNT_TYPES:
                extra = [x for x in extra if x != "_fit"]    # the dimensionless amount: _fit is the identity (its own rule)
            # overridden lookups are evaluated per type (lookup-result); the other defaults must not be overridden
            extra = [x for x in extra if x in {"Unit": {"as_qty"}, "LinearScaledUnit": {"is_ref_unit"}, "Quantity": {"iter_units"}}.get(label, set())]
            if extra:
                from . import ovequiv
                extra = ovequiv.filter_equivalent(ctx, "override", config, w, label, tk, extra, imp)
            if extra:
                ctx.fail("override", "%s/%s/%s" % (config, label, tk), "impl %s for %s overrides %s" % (label, tk, extra), imp["span"])


def iter_form(ctx, config, U, q):
    b = U.item_body(q.impl_unit, "iter")
    inst = "%s/%s" % (config, q.unit_path)
    if b is None:
        ctx.fail("iter-form", inst, "no body for Unit::iter", q.impl_unit["span"])
        return
    ev = T.Evaluator(U)
    try:
        outs = ev.summarize(b)
    except T.Unsupported as x:
        ctx.fail("iter-form", inst, "unsupported construct: " + x.what, x.sp or b["span"])
        return
    t = single_val(outs)
    ok = False
    if t is not None and t[0] == "app" and t[1] in (ITER + "cloned", ITER + "copied") and len(t[3]) == 1:
        s = t[3][0]
        if s[0] == "app" and s[1] == SLICE_ITER and len(s[3]) == 1:
            src = s[3][0]
            # the folder resolves `Self::VARIANTS` to the array constant: compare by value
            want = ("array", tuple(("variant", q.unit_path, v) for v in q.variants_const))
            ok = src == want or (src[0] == "const" and src[1] == q.unit_path + "::VARIANTS")
    ctx.ob("iter-form", inst, ok, "Unit::iter is %s, expected VARIANTS.iter().cloned() over its own table" % (T.show(t) if t else outs), b["span"])


def run_config(ctx, config, counts):
    w = ws.load(config)
    U = w.U
    ctx.configs.append(config)
    generic_rules(ctx, config, U, w)
    lookups = lookup_summaries(ctx, config, U)
    for q in w.qtypes:
        lookups_of_type(ctx, config, w, q, lookups, counts)
    for d in w.un_d:
        ctx.fail("linkage", "%s/%s" % (config, d.key), "declared quantity has no generated type", "%s:%d" % (d.file, d.line_start))
    for q in w.un_q:
        ctx.fail("linkage", "%s/%s" % (config, q.path), "generated quantity type without declaration", q.span)
    per_type(ctx, config, w, counts)
    return lookups


def per_type(ctx, config, w, counts):
    U = w.U
    for q in w.qtypes:
        if q.kind == "dimless":
            iter_form(ctx, config, U, q)
            continue
        d = w.decl_of.get(q.path)
        if d is None:
            continue
        inst = "%s/%s" % (config, q.path)
        where = "%s:%d" % (d.file, d.line_start)
        counts["types"].add((config, q.path))
        # 1. permutation
        vc = q.variants_const
        ctx.ob("variants-permutation", inst, sorted(vc) == sorted(q.variants) and len(vc) == len(set(vc)) == len(d.units),
               "VARIANTS %s is not a permutation of the %d declared units / enum variants %s" % (vc, len(d.units), q.variants), where)
        # 2. order
        want = [D.upper_camel(u.ident) for u in d.expected_order(lambda u: (q.tables.get("scale", {}).get(D.upper_camel(u.ident)) or (None, None))[1])]
        ctx.ob("variants-order", inst, vc == want,
               "iteration order %s differs from the specified order %s (non-decreasing scale, reference unit first among scale-one units, "
               "declaration order for other ties; name order without reference unit)" % (vc, want), where)
        if q.kind == "ref":
            sc = [q.tables["scale"][v][1] for v in vc if v in q.tables["scale"]]
            ctx.ob("variants-nondecreasing", inst, all(sc[i] <= sc[i + 1] for i in range(len(sc) - 1)),
                   "generated scales along VARIANTS are not non-decreasing: %s" % [str(x) for x in sc], where)
            ones = [v for v in vc if q.tables["scale"][v][1] == 1]
            ctx.ob("ref-first-among-ones", inst, bool(ones) and ones[0] == q.ref_unit_hru,
                   "first unit of scale one in iteration order is %s, reference unit is %s" % (ones[:1], q.ref_unit_hru), where)
            # 6. reference unit
            refs = [u for u in d.units if u.is_ref]
            ok = len(refs) == 1 and q.ref_unit_hru == q.ref_unit_lsu == D.upper_camel(refs[0].ident) \
                and q.tables["scale"][q.ref_unit_hru][1] == 1
            ctx.ob("ref-unit", inst, ok, "REF_UNIT constants %s/%s, declared %s, scale %s" % (
                q.ref_unit_hru, q.ref_unit_lsu, [u.ident for u in refs], q.tables["scale"].get(q.ref_unit_hru)), where)
        # 3. iter
        iter_form(ctx, config, U, q)
        # 4. constants
        modpfx = q.path.rsplit("::", 1)[0] + "::"  # the scope the definition lives in
        consts = {p.rsplit("::", 1)[1]: v for p, (v, c) in q.consts.items() if p.startswith(modpfx) and p.count("::") == modpfx.count("::")}
        for u in d.units:
            cn = D.upper_snake(u.ident)
            var = D.upper_camel(u.ident)
            counts["units"].add((config, q.path, u.ident))
            ctx.ob("unit-constant", "%s/%s" % (inst, cn), consts.get(cn) == var,
                   "constant %s%s is %s, expected the unit %s" % (modpfx, cn, consts.get(cn, "missing"), var), "%s:%d" % (d.file, u.line))
            cdef = [c for p, (v, c) in q.consts.items() if p == modpfx + cn]
            if cdef:
                ctx.ob("unit-constant-pub", "%s/%s" % (inst, cn), "Public" in cdef[0]["vis"], "constant is not public: " + cdef[0]["vis"], cdef[0]["span"])
        # 8. lookup model evaluated on the tables: first unit with that symbol / scale
        syms = {}
        for v in vc:
            syms.setdefault(q.tables["symbol"][v], v)
        for v in vc:
            first = syms[q.tables["symbol"][v]]
            ctx.ob("symbol-roundtrip", "%s/%s" % (inst, v), first == v,
                   "from_symbol(symbol(%s)) yields %s (symbols are not unique)" % (v, first), where, nontrivial=True)
        if q.kind == "ref":
            ties = {}
            for v in vc:
                ties.setdefault(q.tables["scale"][v][1], []).append(v)
            tie = {str(k): vs for k, vs in ties.items() if len(vs) > 1}
            if tie:
                ctx.extra.setdefault("scale_tie_classes", {})["%s/%s" % (config, q.path)] = tie


def run(ctx):
    counts = {"types": set(), "units": set()}
    lk = {}
    for config in ("f64-all", "dec-all"):
        lk[config[:3]] = run_config(ctx, config, counts)
    # synthetic definitions: the witness corpus of C11 (attribute permutations, ties, names
    # whose order differs from the order of the generated identifiers), type-checked only
    from . import rules_c11
    seeds = [ctx.seed] if ctx.tier != "thorough" else [ctx.seed + i for i in range(4)]
    for sd in seeds:
        for label, feats in (("f64", []), ("dec", ["fpdec"])):
            cw, crate, bases = rules_c11.load_corpus(ctx, label, feats, sd)
            if sd != ctx.seed:
                cw.config = "%s-seed%d" % (cw.config, sd)
            ctx.configs.append(cw.config)
            per_type(ctx, cw.config, cw, counts)
            for q in cw.qtypes:
                lookups_of_type(ctx, ("f64-" if label == "f64" else "dec-") + cw.config, cw, q, lk[label], counts)
    ctx.floor("corpus quantity types", len([t for t in counts["types"] if t[0].startswith("corpus")]), 2 * 30)
    ctx.floor("f64-all quantity types with declaration", len([t for t in counts["types"] if t[0] == "f64-all"]), 27)
    ctx.floor("dec-all quantity types with declaration", len([t for t in counts["types"] if t[0] == "dec-all"]), 24)
    ctx.floor("lookup evaluations (type x lookup x key class)", counts.get("lookups", 0), 4500)
    ctx.floor("f64-all units", len([t for t in counts["units"] if t[0] == "f64-all"]), 112 + 27 + 30)
    ctx.exhaustive = True
    ctx.rule_text = "per unit enum: permutation, order vs declaration, iterator source, one constant per unit, symbol round trip; per configuration: the four lookups evaluated on every type's table for every key class"
    ctx.trusted = ["rustc THIR construction and resolution", "std contracts: <[T]>::iter order, Iterator::cloned, Iterator::find = first match or None"]
    ctx.explanation = ("VARIANTS of every unit enum is folded and compared with the order computed from the un-expanded declaration by exact rationals; "
                       "Unit::iter reads that very table; the four lookups (delegation inlined) use their key in comparisons only and their gated summaries are evaluated on every type's symbol / scale table for every key class (each table key, the empty string, a key no unit carries, the cells between scales, NaN) against the specified result: the first unit in iteration order carrying the key, else None; "
                       "constants, REF_UNIT, is_ref_unit, as_qty by value-flow forms. Complete for every macro instance in the workspace, both back-ends.")
