"""Specification terms and the two comparison modes (exact tree / rational
function) of DESIGN.md §3.3."""
from . import ratfun, term as T


def P(i, name):
    return T.P(i, name)


def app(name, *args, tag=None):
    return ("app", name, tag, tuple(args))


def amount(x, tag=None):
    return app("Quantity::amount", x, tag=tag)


def unit(x, tag=None):
    return app("Quantity::unit", x, tag=tag)


def new(a, u, tag=None):
    return app("Quantity::new", a, u, tag=tag)


def scale(u, tag=None):
    return app("LinearScaledUnit::scale", u, tag=tag)


def R(t):
    """Marks a sub-term to be compared as a rational function."""
    return ("R", t)


def match(obs, exp):
    """Exact-tree comparison modulo commutativity of + * == and / or; sub-terms
    wrapped in R(...) are compared as rational functions. Returns None if equal,
    else a (observed, expected) pair of the first differing sub-terms."""
    if isinstance(exp, tuple) and exp and exp[0] == "R":
        return None if ratfun.same_real_function(obs, exp[1]) else (obs, exp[1])
    if not isinstance(obs, tuple) or not isinstance(exp, tuple):
        return None if obs == exp else (obs, exp)
    if obs[0] != exp[0]:
        return (obs, exp)
    h = obs[0]
    if h in ("p",):
        return None if obs[1] == exp[1] else (obs, exp)
    if h in ("num",):
        return None if obs[1] == exp[1] else (obs, exp)
    if h in ("str", "bool", "variant", "unit", "none", "const", "panic", "fnref", "opaque_lit"):
        if h == "const":
            return None if obs[1] == exp[1] and (exp[2] is None or obs[2] == exp[2]) else (obs, exp)
        return None if obs == exp else (obs, exp)
    if h == "app":
        if obs[1] != exp[1] or (exp[2] is not None and obs[2] != exp[2]) or len(obs[3]) != len(exp[3]):
            return (obs, exp)
        for a, b in zip(obs[3], exp[3]):
            r = match(a, b)
            if r:
                return r
        return None
    if h == "adt":
        if obs[1] != exp[1] or obs[2] != exp[2] or len(obs[3]) != len(exp[3]):
            return (obs, exp)
        for (n1, a), (n2, b) in zip(obs[3], exp[3]):
            if n1 != n2:
                return (obs, exp)
            r = match(a, b)
            if r:
                return r
        return None
    if h in ("tuple", "array"):
        if len(obs[1]) != len(exp[1]):
            return (obs, exp)
        for a, b in zip(obs[1], exp[1]):
            r = match(a, b)
            if r:
                return r
        return None
    if h == "closure":
        return None if obs[1] == exp[1] else (obs, exp)
    if len(obs) != len(exp):
        return (obs, exp)
    if h in T.COMMUTATIVE and len(obs) == 3:
        r1 = match(obs[1], exp[1]) or match(obs[2], exp[2])
        if r1 is None:
            return None
        r2 = match(obs[1], exp[2]) or match(obs[2], exp[1])
        if r2 is None:
            return None
        return r1
    for a, b in zip(obs[1:], exp[1:]):
        if isinstance(a, tuple) or isinstance(b, tuple):
            r = match(a, b)
            if r:
                return r
        elif a != b:
            return (obs, exp)
    return None


def compare_cases(outs, atoms, spec_fn, feasible=None):
    """Truth-table comparison of gated outcomes with a specification.

    atoms: the specification's own atoms (canonical boolean terms);
    spec_fn(val) -> (kind, expected_term) | None (don't care), where
    val(atom) is the truth value of an atom under the assignment.
    Yields (assignment, problem text) for every disagreeing row."""
    all_atoms = T.guard_atoms(outs, atoms)
    n_rows = 0
    for asg in T.assignments(all_atoms):
        if feasible is not None and not feasible(asg):
            continue
        want = spec_fn(lambda a: T.bool_eval(a, asg))
        if want is None:
            continue
        n_rows += 1
        got = T.select(outs, asg)
        # equalities with constants that hold in this row may be used on both sides
        # (e.g. a fast path guarded by `multiple == 1` that omits the division by it)
        eqs = {}
        for at, val in asg.items():
            if val and at[0] == "==":
                x, y = at[1], at[2]
                if y[0] == "num" and x[0] != "num":
                    eqs[x] = y
                elif x[0] == "num" and y[0] != "num":
                    eqs[y] = x
        if eqs:
            got = [(k, _simp_units(_subst(t, eqs))) for (k, t) in got]
            if want[1] is not None:
                want = (want[0], _simp_units(_subst(want[1], eqs)))
        desc = ", ".join(("" if v else "¬") + T.show(a) for a, v in asg.items())
        if len(got) != 1:
            yield (asg, "case [%s]: %d outcomes instead of one" % (desc, len(got)))
            continue
        (k, t) = got[0]
        (wk, wt) = want
        if k != wk:
            yield (asg, "case [%s]: outcome is %s %s, expected %s %s" % (desc, k, T.show(T.canon(t)), wk, T.show(wt) if wt is not None else ""))
            continue
        if wt is None:
            continue
        diff = match(T.canon(T.untag(t)) if False else T.canon(t), wt)
        if diff:
            yield (asg, "case [%s]: result %s differs from the specified %s (at %s vs %s)"
                   % (desc, T.show(T.canon(t)), T.show(strip_R(wt)), T.show(diff[0]), T.show(strip_R(diff[1]))))
    if n_rows == 0:
        yield ({}, "no feasible case")


def strip_R(t):
    if not isinstance(t, tuple):
        return t
    if t and t[0] == "R":
        return strip_R(t[1])
    if t[0] == "app":
        return ("app", t[1], t[2], tuple(strip_R(x) for x in t[3]))
    if t[0] == "adt":
        return ("adt", t[1], t[2], tuple((n, strip_R(x)) for n, x in t[3]))
    if t[0] in ("tuple", "array"):
        return (t[0], tuple(strip_R(x) for x in t[1]))
    if t[0] in ("p", "num", "str", "bool", "variant", "unit", "none", "const", "panic", "closure"):
        return t
    return (t[0],) + tuple(strip_R(x) if isinstance(x, tuple) else x for x in t[1:])


def _subst(t, mapping):
    if not isinstance(t, tuple):
        return t
    if t and t[0] == "R":
        return ("R", _subst(t[1], mapping))
    ct = T.canon(t)
    if ct in mapping:
        return mapping[ct]
    h = t[0]
    if h == "app":
        return ("app", t[1], t[2], tuple(_subst(x, mapping) for x in t[3]))
    if h in ("p", "num", "str", "bool", "unit", "variant", "none", "const", "panic", "closure", "bytes", "opaque_lit", "fnref"):
        return t
    if h == "adt":
        return ("adt", t[1], t[2], tuple((n, _subst(x, mapping)) for n, x in t[3]))
    if h in ("tuple", "array"):
        return (h, tuple(_subst(x, mapping) for x in t[1]))
    return (h,) + tuple(_subst(x, mapping) if isinstance(x, tuple) else x for x in t[1:])


def _simp_units(t):
    """x*1 -> x, 1*x -> x, x/1 -> x (exact in IEEE-754 and fpdec)."""
    if not isinstance(t, tuple):
        return t
    if t and t[0] == "R":
        return ("R", _simp_units(t[1]))
    h = t[0]
    if h == "app":
        return ("app", t[1], t[2], tuple(_simp_units(x) for x in t[3]))
    if h in ("p", "num", "str", "bool", "unit", "variant", "none", "const", "panic", "closure", "bytes", "opaque_lit", "fnref"):
        return t
    if h == "adt":
        return ("adt", t[1], t[2], tuple((n, _simp_units(x)) for n, x in t[3]))
    if h in ("tuple", "array"):
        return (h, tuple(_simp_units(x) for x in t[1]))
    args = [_simp_units(x) if isinstance(x, tuple) else x for x in t[1:]]
    one = lambda x: isinstance(x, tuple) and x[0] == "num" and x[1] == 1
    if h == "*" and one(args[0]):
        return args[1]
    if h in ("*", "/") and one(args[1]):
        return args[0]
    return (h,) + tuple(args)
