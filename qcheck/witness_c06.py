"""C06 thorough — rustc as the judge: the complete matrix of one-line operator
programs over the catalogue types (15 x 15 x 6 per back-end) and the
astronomical crate (5 x 5 x 6) is type-checked in one rustc run per crate; the
verdict matrix must equal the prediction derived from the independent
defining equations (oracle/derivations.json)."""
import json
import os

from . import facts, oracle, rules_c06, witness

OPS = [("+", "add"), ("-", "sub"), ("*", "mul"), ("/", "div"), ("==", "eq"), ("<", "lt")]
AMT = "AmountT"

CATALOGUE = {
    "Mass": "quantities::mass::Mass", "Length": "quantities::length::Length", "Duration": "quantities::duration::Duration",
    "Area": "quantities::area::Area", "Volume": "quantities::volume::Volume", "Speed": "quantities::speed::Speed",
    "Acceleration": "quantities::acceleration::Acceleration", "Force": "quantities::force::Force", "Energy": "quantities::energy::Energy",
    "Power": "quantities::power::Power", "Frequency": "quantities::frequency::Frequency", "DataVolume": "quantities::datavolume::DataVolume",
    "DataThroughput": "quantities::datathroughput::DataThroughput", "Temperature": "quantities::temperature::Temperature",
    AMT: "quantities::AmountT",
}
ASTRO = {"Mass": "astronomical_quantities::Mass", "Length": "astronomical_quantities::Length", "Duration": "astronomical_quantities::Duration",
         "Speed": "astronomical_quantities::Speed", AMT: "quantities::AmountT"}


def predict(names, eqs):
    """{(A, op, B): result type name | 'bool' | None(rejected)}"""
    closure = set()
    for (R, A, op, B) in eqs:
        closure |= rules_c06.derived_closure(R, A, op, B)
    table = {}
    for A in names:
        for B in names:
            for (op, _n) in OPS:
                r = None
                if op in ("+", "-"):
                    r = A if A == B else None
                elif op in ("==", "<"):
                    r = "bool" if A == B else None
                elif op == "*":
                    if A == AMT and B == AMT:
                        r = AMT
                    elif A == AMT:
                        r = B
                    elif B == AMT:
                        r = A
                elif op == "/":
                    if B == AMT:
                        r = A
                    elif A == B:
                        r = AMT
                if r is None and op in ("*", "/"):
                    hits = [x[3] for x in closure if x[0] == op and x[1] == A and x[2] == B]
                    if len(hits) == 1:
                        r = hits[0]
                table[(A, op, B)] = r
    return table


def gen(types, table):
    lines = ["#![allow(unused, clippy::all)]", "// generated operator matrix: one program per line"]
    index = {}
    for (A, op, B), r in sorted(table.items()):
        n = len(lines) + 1
        ta, tb = types[A], types[B]
        if r is None:
            body = "let _ = a %s b;" % op
        else:
            rt = "bool" if r == "bool" else types[r]
            body = "let _: %s = a %s b;" % (rt, op)
        lines.append("pub fn p%d(a: %s, b: %s) { %s }" % (n, ta, tb, body))
        index[n] = (A, op, B)
    return "\n".join(lines) + "\n", index


def run_matrix(ctx, label, types, eqs, features, extra_deps, tgt):
    table = predict(list(types), eqs)
    src, index = gen(types, table)
    d = witness.workdir("c06-" + label)
    witness.write_crate(d, "c06w_" + label.replace("-", "_"), features=features, lib=src, extra_deps=extra_deps)
    rc, recs, err = witness.cargo_check(d, tgt, ["--lib", "--keep-going"])
    diags, arts = witness.diagnostics(recs)
    if not any(n == "quantities" for (n, k) in arts):
        ctx.fail("matrix-build", label, "the repository crate did not build for the matrix crate:\n" + err[-600:], "cargo check")
        return 0
    tn = "c06w_" + label.replace("-", "_")
    rejected = {}
    for (lvl, msg, f, line, col, code) in diags.get(tn, []):
        if lvl == "error" and f and f.endswith("src/lib.rs") and line in index:
            rejected.setdefault(line, []).append((code, msg.splitlines()[0][:100]))
    n = 0
    acc = rej = 0
    for line, key in index.items():
        want = table[key]
        got_rejected = line in rejected
        n += 1
        (A, op, B) = key
        inst = "%s/%s %s %s" % (label, A, op, B)
        if want is None:
            rej += 1
            ctx.ob("matrix", inst, got_rejected,
                   "`%s %s %s` type-checks although the combination is not dimensionally meaningful / not a declared derivation" % (A, op, B), "matrix program line %d" % line)
        else:
            acc += 1
            ctx.ob("matrix", inst, not got_rejected,
                   "`%s %s %s` should type-check with result type %s but rustc reports %s" % (A, op, B, want, rejected.get(line)), "matrix program line %d" % line)
    ctx.ob("matrix-positive-control", label, acc > 0 and rej > 0 and any(line in rejected for line in index),
           "matrix has no accepted or no rejected program: nothing was type-checked", None, nontrivial=False)
    ctx.extra.setdefault("matrix", {})[label] = {"programs": n, "expected_accepted": acc, "expected_rejected": rej, "rustc_rejected": len(rejected)}
    ctx.sample({"matrix": label, "program": src.splitlines()[5]})
    return n


def astro_dir():
    """Directory of the workspace member whose package is named astronomical-quantities (found through the
    manifests, not by its directory name)."""
    import glob
    import re
    for m in sorted(glob.glob(os.path.join(facts.REPO, "*", "Cargo.toml"))):
        try:
            if re.search(r'^\s*name\s*=\s*"astronomical-quantities"', open(m).read(), re.M):
                return os.path.dirname(m)
        except OSError:
            pass
    return os.path.join(facts.REPO, "astronimical_quantities")


def run(ctx):
    eqs = json.load(open(os.path.join(oracle.ODIR, "derivations.json")))
    n = 0
    n += run_matrix(ctx, "f64", CATALOGUE, [tuple(e) for e in eqs["quantities"]], ["doc"], "", "witness-c06-f64")
    n += run_matrix(ctx, "dec", CATALOGUE, [tuple(e) for e in eqs["quantities"]], ["doc", "fpdec"], "", "witness-c06-dec")
    astro_dep = 'astronomical-quantities = { path = "%s" }\n' % astro_dir()
    n += run_matrix(ctx, "astro", ASTRO, [tuple(e) for e in eqs["astronomical_quantities"]], [], astro_dep, "witness-c06-astro")
    ctx.floor("matrix programs judged by rustc", n, 1350 + 1350 + 150)
    g = run_graphs(ctx)
    ctx.floor("random-graph programs judged by rustc", g, 2000)


# ---------------------------------------------------------------- random derivation graphs
def random_graph(rnd, n_base=4, n_derived=6):
    """Conflict-free random derivation graph: returns (type names, equations)."""
    names = ["B%d" % i for i in range(n_base)]
    eqs = []
    used = set()      # by-value (op, A, B) operand keys already generated
    tries = 0
    while len(eqs) < n_derived and tries < 200:
        tries += 1
        op = rnd.choice(["*", "/"])
        pool = list(names)
        A = rnd.choice(pool + ([AMT] if op == "/" else []))
        B = rnd.choice(pool)
        if op == "/" and A == B:
            continue
        R = "D%d" % len(eqs)
        cl = rules_c06.derived_closure(R, A, op, B)
        keys = {(o, x, y) for (o, x, y, r) in cl}
        if len(keys) != len(cl) or keys & used:
            continue
        # standard impls: Q / Q -> AmountT, AmountT * Q, Q * AmountT, Q / AmountT
        if any((o == "/" and x == y) or (o == "*" and AMT in (x, y)) or (o == "/" and y == AMT) for (o, x, y) in keys):
            continue
        used |= keys
        eqs.append((R, A, op, B))
        names.append(R)
    return names, eqs


def graph_source(names, eqs, rnd):
    lines = ["pub mod g {", "    use quantities::prelude::*;"]
    der = {e[0]: e for e in eqs}
    for n in names:
        attr = "#[quantity]" if n not in der else "#[quantity(%s %s %s)]" % (der[n][1], der[n][2], der[n][3])
        lines.append("    " + attr)
        lines.append('    #[ref_unit(%s_ref, "%s")]' % (n, n.lower()))
        for j, sc in enumerate(rnd.sample(["1000", "0.001", "0.5", "60", "1e3", "0.0254", "12"], 2)):
            lines.append('    #[unit(%s_u%d, "%s%d", %s)]' % (n, j, n.lower(), j, sc))
        lines.append("    pub struct %s {}" % n)
    lines.append("}")
    return "\n".join(lines)


def run_graphs(ctx, n_graphs=3):
    import random
    total = 0
    for gi in range(n_graphs):
        rnd = random.Random(ctx.seed * 1000003 + gi)
        names, eqs = random_graph(rnd)
        types = {n: "g::%s" % n for n in names}
        types[AMT] = "quantities::AmountT"
        table = predict(list(types), eqs)
        defs = graph_source(names, eqs, rnd)
        for label, feats, tgt in (("f64", [], "witness-c06-f64"), ("dec", ["fpdec"], "witness-c06-dec")):
            src, index = gen(types, table)
            # the definitions follow the matrix so that the line index of the programs is unchanged
            full = src + "\n" + defs + "\n"
            d = witness.workdir("c06-graph-%s" % label)
            pkg = "c06g_%s" % label
            witness.write_crate(d, pkg, features=feats, lib=full)
            rc, recs, err = witness.cargo_check(d, tgt, ["--lib", "--keep-going"])
            diags, arts = witness.diagnostics(recs)
            if not any(n == "quantities" for (n, k) in arts):
                ctx.fail("graph-build", "%s/graph%d" % (label, gi), "the repository crate did not build:\n" + err[-500:], "cargo check")
                continue
            rejected = {}
            other = []
            for (lvl, msg, f, line, col, code) in diags.get(pkg, []):
                if lvl != "error" or msg.startswith(("aborting", "could not compile")):
                    continue
                if f and f.endswith("src/lib.rs") and line in index:
                    rejected.setdefault(line, []).append(code)
                else:
                    other.append((msg.splitlines()[0][:100], line))
            inst0 = "%s/graph%d[%s]" % (label, gi, "; ".join("%s=%s%s%s" % e for e in eqs))
            ctx.ob("graph-definitions-compile", inst0, not other, "the generated (conflict-free) derivation graph itself is rejected: %s" % other[:2], "graph witness")
            bad = []
            for line, key in index.items():
                want = table[key]
                if (want is None) != (line in rejected):
                    bad.append((key, want, rejected.get(line)))
                total += 1
            ctx.ob("graph-matrix", inst0, not bad,
                   "rustc's verdict differs from the prediction for %d of %d programs, e.g. %s" % (len(bad), len(index), bad[:3]), "graph witness")
            ctx.extra.setdefault("graphs", []).append({"backend": label, "equations": ["%s = %s %s %s" % e for e in eqs], "programs": len(index),
                                                       "rejected": len(rejected)})
    return total
