"""C06 thorough — rustc as the judge: the complete matrix of one-line operator
programs over the catalogue types (15 x 15 x 6 per back-end) and the
astronomical crate (5 x 5 x 6) is type-checked in one rustc run per crate; the
verdict matrix must equal the prediction derived from the independent
defining equations (oracle/derivations.json)."""
import json
import os

from . import facts, oracle, rules_c06, witness

OPS = [("+", "add"), ("-", "sub"), ("*", "mul"), ("/", "div"), ("==", "eq"), ("<", "lt")]
AMT = "AmountT"

CATALOGUE = {
    "Mass": "quantities::mass::Mass", "Length": "quantities::length::Length", "Duration": "quantities::duration::Duration",
    "Area": "quantities::area::Area", "Volume": "quantities::volume::Volume", "Speed": "quantities::speed::Speed",
    "Acceleration": "quantities::acceleration::Acceleration", "Force": "quantities::force::Force", "Energy": "quantities::energy::Energy",
    "Power": "quantities::power::Power", "Frequency": "quantities::frequency::Frequency", "DataVolume": "quantities::datavolume::DataVolume",
    "DataThroughput": "quantities::datathroughput::DataThroughput", "Temperature": "quantities::temperature::Temperature",
    AMT: "quantities::AmountT",
}
ASTRO = {"Mass": "astronomical_quantities::Mass", "Length": "astronomical_quantities::Length", "Duration": "astronomical_quantities::Duration",
         "Speed": "astronomical_quantities::Speed", AMT: "quantities::AmountT"}


def predict(names, eqs):
    """{(A, op, B): result type name | 'bool' | None(rejected)}"""
    closure = set()
    for (R, A, op, B) in eqs:
        closure |= rules_c06.derived_closure(R, A, op, B)
    table = {}
    for A in names:
        for B in names:
            for (op, _n) in OPS:
                r = None
                if op in ("+", "-"):
                    r = A if A == B else None
                elif op in ("==", "<"):
                    r = "bool" if A == B else None
                elif op == "*":
                    if A == AMT and B == AMT:
                        r = AMT
                    elif A == AMT:
                        r = B
                    elif B == AMT:
                        r = A
                elif op == "/":
                    if B == AMT:
                        r = A
                    elif A == B:
                        r = AMT
                if r is None and op in ("*", "/"):
                    hits = [x[3] for x in closure if x[0] == op and x[1] == A and x[2] == B]
                    if len(hits) == 1:
                        r = hits[0]
                table[(A, op, B)] = r
    return table


def gen(types, table):
    lines = ["#![allow(unused, clippy::all)]", "// generated operator matrix: one program per line"]
    index = {}
    for (A, op, B), r in sorted(table.items()):
        n = len(lines) + 1
        ta, tb = types[A], types[B]
        if r is None:
            body = "let _ = a %s b;" % op
        else:
            rt = "bool" if r == "bool" else types[r]
            body = "let _: %s = a %s b;" % (rt, op)
        lines.append("pub fn p%d(a: %s, b: %s) { %s }" % (n, ta, tb, body))
        index[n] = (A, op, B)
    return "\n".join(lines) + "\n", index


def run_matrix(ctx, label, types, eqs, features, extra_deps, tgt):
    table = predict(list(types), eqs)
    src, index = gen(types, table)
    d = witness.workdir("c06-" + label)
    witness.write_crate(d, "c06w_" + label.replace("-", "_"), features=features, lib=src, extra_deps=extra_deps)
    rc, recs, err = witness.cargo_check(d, tgt, ["--lib", "--keep-going"])
    diags, arts = witness.diagnostics(recs)
    if not any(n == "quantities" for (n, k) in arts):
        ctx.fail("matrix-build", label, "the repository crate did not build for the matrix crate:\n" + err[-600:], "cargo check")
        return 0
    tn = "c06w_" + label.replace("-", "_")
    rejected = {}
    for (lvl, msg, f, line, col, code) in diags.get(tn, []):
        if lvl == "error" and f and f.endswith("src/lib.rs") and line in index:
            rejected.setdefault(line, []).append((code, msg.splitlines()[0][:100]))
    n = 0
    acc = rej = 0
    for line, key in index.items():
        want = table[key]
        got_rejected = line in rejected
        n += 1
        (A, op, B) = key
        inst = "%s/%s %s %s" % (label, A, op, B)
        if want is None:
            rej += 1
            ctx.ob("matrix", inst, got_rejected,
                   "`%s %s %s` type-checks although the combination is not dimensionally meaningful / not a declared derivation" % (A, op, B), "matrix program line %d" % line)
        else:
            acc += 1
            ctx.ob("matrix", inst, not got_rejected,
                   "`%s %s %s` should type-check with result type %s but rustc reports %s" % (A, op, B, want, rejected.get(line)), "matrix program line %d" % line)
    ctx.ob("matrix-positive-control", label, acc > 0 and rej > 0 and any(line in rejected for line in index),
           "matrix has no accepted or no rejected program: nothing was type-checked", None, nontrivial=False)
    ctx.extra.setdefault("matrix", {})[label] = {"programs": n, "expected_accepted": acc, "expected_rejected": rej, "rustc_rejected": len(rejected)}
    ctx.sample({"matrix": label, "program": src.splitlines()[5]})
    return n


def run(ctx):
    eqs = json.load(open(os.path.join(oracle.ODIR, "derivations.json")))
    n = 0
    n += run_matrix(ctx, "f64", CATALOGUE, [tuple(e) for e in eqs["quantities"]], ["doc"], "", "witness-c06-f64")
    n += run_matrix(ctx, "dec", CATALOGUE, [tuple(e) for e in eqs["quantities"]], ["doc", "fpdec"], "", "witness-c06-dec")
    astro_dep = 'astronomical-quantities = { path = "%s" }\n' % os.path.join(facts.REPO, "astronimical_quantities")
    n += run_matrix(ctx, "astro", ASTRO, [tuple(e) for e in eqs["astronomical_quantities"]], [], astro_dep, "witness-c06-astro")
    ctx.floor("matrix programs judged by rustc", n, 1350 + 1350 + 150)
