"""C18 — totality (panic-site inventory; decimal overflow NOT decided)."""
import re
from fractions import Fraction

from . import conc, generic as G, model, rules_c05, term as T, ws
from .model import ModelError

PANIC_VOCAB = re.compile(
    r"(^core::panicking::|^std::rt::begin_panic|^std::panicking::|::unwrap$|::expect$|::unwrap_err$|::expect_err$|"
    r"unwrap_failed|expect_failed|unreachable|^core::slice::index::|slice_index|::index$|::index_mut$|"
    r"copy_from_slice|split_at|swap_remove|::remove$|::insert$|::drain$|borrow_mut$|::borrow$|"
    r"from_utf8_unchecked|::div_euclid$|::rem_euclid$|::pow$|::abs$|::assert|assert_failed|"
    r"^core::str::.*::(split_at|get_unchecked)|^alloc::vec::.*::(remove|insert|swap_remove|split_off|drain)|"
    r"::swap$|::chunks|::windows$|::step_by$|::copy_within$|::rotate_|from_digit$|::to_digit$|RefCell|::repeat$|::truncate$|"
    r"::insert_str$|::replace_range$|::split_off$|::as_chunks|::array_chunks|::select_nth|::clamp$|::first_chunk|::last_chunk|::unwrap_unchecked)")

# std/alloc/core callees accepted as non-panicking for the inputs of this crate
ALLOW_PREFIX = (
    "core::iter::", "core::slice::<impl [T]>::iter", "core::slice::iter::", "core::cmp::", "core::fmt::", "alloc::fmt::",
    "alloc::string::", "alloc::borrow::", "core::clone::", "core::ops::try_trait::", "core::ops::deref::", "core::ops::arith::",
    "core::convert::", "core::hint::must_use", "core::bool::<impl bool>::then", "core::intrinsics::discriminant_value",
    # Option / Result combinators: total; the panicking members (unwrap, expect, unwrap_err, expect_err) are
    # caught by the panic vocabulary before this list is consulted
    "core::option::Option::<", "core::result::Result::<", "core::ops::function::", "core::marker::",
    "core::str::<impl str>::is_empty", "core::str::<impl str>::len", "core::default::", "core::hash::",
    "core::slice::<impl [T]>::len", "core::slice::<impl [T]>::is_empty", "core::slice::<impl [T]>::first", "core::slice::<impl [T]>::last",
    "core::slice::<impl [T]>::get", "core::slice::<impl [T]>::contains", "core::mem::", "core::ptr::addr_of",
    # whole std areas whose panicking members all match the panic vocabulary above (which is consulted first):
    # string / char / number helpers (saturating_*, checked_*, wrapping_*, chars, count, ...), slices, arrays, Vec, Box
    "core::str::", "core::char::", "core::num::", "core::slice::", "core::array::", "alloc::vec::", "alloc::boxed::", "alloc::str::",
    "core::borrow::", "core::any::", "core::cell::Cell", "core::time::", "core::ascii::", "core::unicode::",
    # inherent float methods never panic (clamp, which asserts min <= max, is excluded below)
    "core::f64::<impl f64>::", "core::f32::<impl f32>::", "std::f64::<impl f64>::", "std::f32::<impl f32>::",
)
DENY_EXACT = ("core::f64::<impl f64>::clamp", "core::f32::<impl f32>::clamp")
FPDEC_ARITH_TRAITS = ("core::ops::arith::Add", "core::ops::arith::Sub", "core::ops::arith::Mul", "core::ops::arith::Div", "core::ops::arith::Neg")

GUARD_HELPERS = set()     # filled by inventory(): private helpers carrying the documented mixed-unit panic
EXPECTED = {
    ("quantities::Quantity::add", "core::panicking::panic_fmt"): "documented: different units of a quantity without reference unit",
    ("quantities::Quantity::sub", "core::panicking::panic_fmt"): "documented: different units of a quantity without reference unit",
    ("quantities::Quantity::div", "core::panicking::panic_fmt"): "documented: different units of a quantity without reference unit",
    ("quantities::HasRefUnit::_fit", "core::option::Option::<T>::unwrap"): "discharged from the unit tables (rule unwrap-discharged)",
    ("quantities::HasRefUnit::_fit", "core::option::Option::<T>::expect"): "discharged from the unit tables (rule unwrap-discharged)",
}


def is_serde(m, body):
    return "serde_core::" in m["def"] or "serde::" in m["def"] or (body is not None and "serde::" in (body.get("expn") or ""))


def callee(cl):
    f = cl.get("fn")
    if f is None:
        return None, None
    r = f.get("resolved")
    return f, (r["path"] if r else f["path"])


def table_functions(w):
    """Unit table functions whose bodies were folded for EVERY variant when the
    workspace model was built (name / symbol / si_prefix / scale): an index
    expression in them was evaluated for each variant, so its bounds check
    cannot fire (an out-of-range index would have failed the extraction)."""
    res = set()
    for q in w.qtypes:
        for imp, fns in ((q.impl_unit, ("name", "symbol", "si_prefix")), (getattr(q, "impl_lsu", None), ("scale",))):
            if imp is None:
                continue
            for it in imp["items"]:
                if it["name"] in fns:
                    res.add(it["path"])
    return res


SCOPE_TRAITS = (model.T_QUANTITY, model.T_UNIT, model.T_LSU, model.T_HRU, "quantities::converter::Converter")
SCOPE_TYPES = ("quantities::rate::Rate", "quantities::converter::ConversionTable")


def operations_scope(w):
    """Bodies that implement or are reachable from the operations C18 names — conversion, comparison, arithmetic,
    derived and rate operations, formatting: every impl of an arithmetic / comparison / Display trait and of the
    library's own traits in the library crates, the default methods of those traits, the inherent methods of Rate and
    ConversionTable, and everything they call through resolved callees (a call to a required trait method fans out to
    every impl of it).  Panic-capable sites outside this set (e.g. SI-prefix lookups, derived Hash / serde code) are
    no operation of C18 and are listed in the evidence instead of being judged."""
    libs = [c for c in w.crates if not c.is_test]
    impl_of = {}      # (trait, method) -> [impl item paths]
    entries = set()
    for c in libs:
        for imp in c.impls:
            tr = imp.get("trait")
            st = model.ty_key(imp["self_ty"])
            # (a local `fmt::Write` sink is driven by std's formatting machinery through a trait object: no resolved
            # call edge leads to its `write_str`, so such impls are entries of their own)
            is_entry = (tr is not None and (tr.startswith("core::ops::arith::") or tr.startswith("core::cmp::Partial") or tr in ("core::fmt::Display", "core::fmt::Write")
                                            or tr in SCOPE_TRAITS)) or (tr is None and st.split("<")[0] in SCOPE_TYPES)
            for it in imp["items"]:
                if it.get("kind") != "fn":
                    continue
                if tr is not None:
                    impl_of.setdefault((tr, it["name"]), []).append(it["path"])
                if is_entry:
                    entries.add(it["path"])
        for t in c.traits:
            if t["path"] in SCOPE_TRAITS:
                for it in t["items"]:
                    if it.get("kind") == "fn" and it.get("has_default"):
                        entries.add(it["path"])
    graph = {}
    for c in libs:
        for d, m in c.mir.items():
            outs = graph.setdefault(d, set())
            for cl in m["calls"]:
                f, p = callee(cl)
                if f is None:
                    continue
                outs.add(p)
                outs.add(f["path"])
                if f.get("trait") and not f.get("resolved"):
                    outs.update(impl_of.get((f["trait"], f["name"]), ()))
    seen, stack = set(), list(entries)
    while stack:
        x = stack.pop()
        if x in seen:
            continue
        seen.add(x)
        stack.extend(graph.get(x, ()))
    return seen


def in_scope(scope, d):
    if scope is None:
        return True
    base = d.split("::{closure")[0].split("::{constant")[0]
    return d in scope or base in scope


def finite_domain_total(U, crate, d, cache):
    """True if every parameter of function d is a (reference to a) field-less enum of the analysed crates and the
    body, constant-evaluated (ctfe.py) on EVERY combination of variants, never panics: its panic-capable sites are
    then unreachable.  A text if an input panics; None if the function is not of that kind / cannot be evaluated."""
    if d in cache:
        return cache[d]
    res = None
    body = crate.bodies.get(d)
    try:
        if U is not None and body is not None and body.get("params"):
            doms = []
            for p in body["params"]:
                ty = p["ty"]
                while ty.get("k") == "ref":
                    ty = ty["ty"]
                adt = None
                if ty.get("k") == "adt" and not ty.get("args"):
                    for c in U.crates:
                        adt = c.adt_by_path.get(ty["path"]) or adt
                if adt is None or not adt.get("is_enum") or any(v.get("fields") for v in adt["variants"]):
                    doms = None
                    break
                doms.append([("variant", ty["path"], v["name"]) for v in adt["variants"]])
            n = 1
            for x in doms or []:
                n *= len(x)
            if doms and n <= 4096:
                import itertools
                from . import ctfe
                res = True
                for combo in itertools.product(*doms):
                    try:
                        ctfe.Ctfe(U, lambda path, variant: U._discr.get((path, variant))).call_body(body, list(combo))
                    except ctfe.FoldPanic as pn:
                        res = "panics for %s: %s" % ([c[2] for c in combo], pn)
                        break
                    except ctfe.CannotFold:
                        res = None
                        break
    except Exception:
        res = None
    cache[d] = res
    return res


def inventory(ctx, config, crate, amt, table_fns=(), scope=None, U_inv=None):
    fd_cache = {}
    sites = []
    fpdec_sites = 0
    unknown = []
    n_bodies = 0
    local_prefix = crate.name + "::"
    out_of_scope = []
    for d, m in sorted(crate.mir.items()):
        body = crate.bodies.get(d)
        if is_serde(m, body):
            continue
        if m.get("kind", "").startswith(("Const", "AssocConst", "Static", "AnonConst", "InlineConst")):
            continue   # evaluated by the compiler: a panic there is a compile error, not a run-time panic
        if not in_scope(scope, d):
            k = len([a for a in m["asserts"] if not a["cleanup"] and not a.get("never_fires")]) + \
                len([cl for cl in m["calls"] if not cl["cleanup"] and callee(cl)[0] is not None and PANIC_VOCAB.search(callee(cl)[1] or "")])
            if k:
                out_of_scope.append((d, k))
            continue
        n_bodies += 1
        for a in m["asserts"]:
            if a["kind"] == "BoundsCheck" and d in table_fns:
                continue
            if not a["cleanup"] and not a.get("never_fires"):
                sites.append((d, "assert:" + a["kind"], a["sp"]))
        for cl in m["calls"]:
            if cl["cleanup"]:
                continue
            f, p = callee(cl)
            if f is None:
                unknown.append((d, "indirect call", cl["sp"]))
                continue
            declared = f["path"]
            if PANIC_VOCAB.search(declared) or PANIC_VOCAB.search(p):
                # Decimal::abs is total (documented) — the only fpdec non-arithmetic call
                if declared == "fpdec::unops::<impl fpdec::Decimal>::abs":
                    continue
                sites.append((d, declared, cl["sp"]))
                continue
            if cl["diverges"]:
                sites.append((d, declared + " (diverging)", cl["sp"]))
                continue
            tr = f.get("trait")
            self_ty = model.ty_key(f["args"][0]) if f.get("args") else ""
            if amt != "f64" and (declared.startswith("fpdec::") or (tr in FPDEC_ARITH_TRAITS and "fpdec::Decimal" in self_ty)
                                 or (tr in ("core::cmp::PartialOrd", "core::cmp::PartialEq", "core::fmt::Display") and "fpdec::Decimal" in self_ty)):
                if tr in FPDEC_ARITH_TRAITS or declared.startswith("fpdec::"):
                    fpdec_sites += 1
                continue
            if p.startswith(local_prefix) or declared.startswith(local_prefix) or p.startswith("<" + local_prefix) or declared.startswith("<" + local_prefix) \
                    or p.startswith("quantities::") or declared.startswith("quantities::") or "<quantities::" in p[:14] or "<" + local_prefix in p[:40]:
                continue  # local / workspace callee: analysed on its own
            if tr in FPDEC_ARITH_TRAITS and self_ty.lstrip("&") in ("f64",):
                continue
            if declared not in DENY_EXACT and any(declared.startswith(x) or p.startswith(x) for x in ALLOW_PREFIX):
                continue
            if f.get("local") or (f.get("resolved") or {}).get("local"):
                continue
            if tr is not None and tr.startswith(("quantities::",)):
                continue
            unknown.append((d, declared, cl["sp"]))
    label = "%s/%s" % (config, crate.name)
    # diverging private helpers of the documented panics: a function all of whose call sites are diverging calls inside
    # the documented functions (or inside another such helper) and whose own sites are nothing but the panic itself
    DOC = {k[0] for k in EXPECTED if k[1] == "core::panicking::panic_fmt"}
    call_sites = {}
    for d, m in crate.mir.items():
        for cl in m["calls"]:
            if cl["cleanup"]:
                continue
            f, p = callee(cl)
            if f is not None:
                for x in {p, f["path"]}:
                    call_sites.setdefault(x, []).append((d, cl["diverges"]))
    by_fn = {}
    for (d, what, sp) in sites:
        by_fn.setdefault(d, []).append(what)

    def doc_helper(h, seen=()):
        cs = call_sites.get(h, [])
        if not cs or h in seen or not all(div for _d, div in cs):
            return False
        if not all(wh.startswith("core::panicking::") for wh in by_fn.get(h, [])):
            return False
        return all(c in DOC or doc_helper(c, seen + (h,)) for c, _div in cs)
    # private helpers carrying the documented mixed-unit panic — diverging ones (`fn unlike_units(..) -> !`) and ones
    # that contain the guard (return normally for equal units): the greatest family F of functions whose own
    # panic-capable sites are nothing but the panic itself or diverging calls into F, and all of whose callers are
    # documented operations or members of F.  Which inputs make them panic is C10's value-flow business; here it
    # only matters that no other operation can reach them.
    def own_ok(h, F):
        return all(wh.startswith("core::panicking::") or (wh.endswith(" (diverging)") and wh[:-len(" (diverging)")] in F) for wh in by_fn.get(h, []))
    F = {h for h in by_fn if h not in DOC}
    changed = True
    while changed:
        changed = False
        for h in sorted(F):
            cs = call_sites.get(h, [])
            if not cs or not own_ok(h, F) or not all(c in DOC or c in F for c, _div in cs):
                F.discard(h)
                changed = True
    GUARD_HELPERS.update(F)
    for h in sorted(F):
        for c, _div in call_sites.get(h, []):
            if c in DOC:
                sites.append((c, "core::panicking::panic_fmt", None))   # counts as the documented site of c
    helper_calls = set()
    for (d, what, sp) in sites:
        if what.endswith(" (diverging)") and (d in DOC or doc_helper(d)) and doc_helper(what[:-len(" (diverging)")]):
            helper_calls.add((d, what))
    for (d, what, sp) in list(sites):
        if (d, what) in helper_calls:
            ctx.ob("panic-site", "%s/%s/%s" % (label, d, what), True, "documented panic raised through a private diverging helper", sp)
            if d in DOC:
                sites.append((d, "core::panicking::panic_fmt", sp))   # counts as the documented site of d
            continue
        if d in GUARD_HELPERS or (d in DOC and what.endswith(" (diverging)") and what[:-len(" (diverging)")] in GUARD_HELPERS):
            ctx.ob("panic-site", "%s/%s/%s" % (label, d, what), True, "the documented mixed-unit panic, raised in a private helper only the documented operations call", sp)
            continue
        if what.startswith("core::panicking::") and doc_helper(d):
            ctx.ob("panic-site", "%s/%s/%s" % (label, d, what), True, "the documented mixed-unit panic, factored into a private diverging helper", sp)
            continue
        key = (d, what)
        if key in EXPECTED:
            ctx.ob("panic-site", "%s/%s/%s" % (label, d, what), True, EXPECTED[key], sp)
        else:
            fd = finite_domain_total(U_inv, crate, d, fd_cache)
            if fd is True:
                ctx.ob("panic-site", "%s/%s/%s" % (label, d, what), True,
                       "every parameter of the function is a field-less enum: constant-evaluated on every input, none panics", sp)
                continue
            ctx.fail("panic-site", "%s/%s/%s" % (label, d, what),
                     "undocumented panic-capable site in library code: %s in %s%s" % (what, d, (" (%s)" % fd) if fd else ""), sp)
    for (d, what, sp) in unknown:
        ctx.fail("unvetted-callee", "%s/%s/%s" % (label, d, what),
                 "call to %s in %s: not on the list of std functions accepted as non-panicking (fail closed)" % (what, d), sp)
    ctx.ob("inventory", label, True, "")
    ctx.extra.setdefault("inventory", {})[label] = {"bodies": n_bodies, "panic_sites": len(sites), "fpdec_arithmetic_call_sites": fpdec_sites,
                                                     "out_of_scope_bodies_with_panic_capable_sites": out_of_scope[:40]}
    return n_bodies, sites


def who_may_panic(ctx, config, w, crate):
    """No operator / Display impl of a reference-unit type reaches a
    documented panic site through resolved local callees."""
    graph = {}
    for d, m in crate.mir.items():
        outs = set()
        for cl in m["calls"]:
            if cl["cleanup"]:
                continue
            f, p = callee(cl)
            if f is None:
                continue
            for x in (p, f["path"]):
                if x in crate.mir or x in w.U.body:
                    outs.add(x)
        graph[d] = outs
    # bodies of other crates of the fact set (e.g. the quantities defaults when analysing the astronomical crate)
    for c in w.crates:
        if c is crate:
            continue
        for d, m in c.mir.items():
            if d not in graph:
                outs = set()
                for cl in m["calls"]:
                    f, p = callee(cl)
                    if f and not cl["cleanup"]:
                        outs.update(x for x in (p, f["path"]) if x in c.mir)
                graph[d] = outs
    bad_targets = {k[0] for k in EXPECTED if k[1].endswith("panic_fmt")} | set(GUARD_HELPERS)
    n = 0
    for q in w.qtypes:
        if q.crate is not crate or q.kind != "ref":
            continue
        for imp in crate.impls:
            tr = imp.get("trait")
            if tr not in model.OPS and tr not in model.CMPS and tr != "core::fmt::Display":
                continue
            st = model.ty_key(imp["self_ty"]).lstrip("&")
            if st != q.path:
                continue
            for it in imp["items"]:
                if it["kind"] != "fn":
                    continue
                seen, stack = set(), [it["path"]]
                hit = None
                while stack:
                    x = stack.pop()
                    if x in seen:
                        continue
                    seen.add(x)
                    if x in bad_targets:
                        hit = x
                        break
                    stack.extend(graph.get(x, ()))
                n += 1
                ctx.ob("ref-unit-types-never-reach-documented-panic", "%s/%s" % (config, it["path"]), hit is None,
                       "%s (a reference-unit type) reaches the documented mixed-unit panic in %s" % (it["path"], hit), imp["span"], nontrivial=False)
    return n


def unwrap_discharge(ctx, config, w):
    U = w.U
    outs, b, ev = G.summarize(U, G.HRU + "_fit", {"*"})

    def unwraps(t, acc):
        if isinstance(t, tuple):
            if t[0] == "unwrap":
                acc.append(t)
            if t[0] == "app":
                for x in t[3]:
                    unwraps(x, acc)
            elif t[0] not in ("p", "num", "str", "bool", "variant", "closure"):
                for x in t[1:]:
                    unwraps(x, acc)
        return acc
    n = 0
    for q in w.qtypes:
        if q.kind != "ref":
            continue
        c = conc.Conc(U, q, ev)
        special = [("NaN", float("nan")), ("+infinity", float("inf")), ("-infinity", float("-inf"))] if config.startswith("f64") else []
        for (cname, x) in rules_c05.cells(q) + special:
            for (g, k, t) in outs:
                guarded = {T.canon(a[1]) for a, p in g if a[0] == "isvar" and a[2] == "Some" and p}
                try:
                    holds = all(bool(c.eval(a, {0: x})) == p for a, p in g)
                except conc.ModelPanic:
                    holds = True
                except (conc.CannotEvaluate, T.Unsupported) as e:
                    ctx.fail("unwrap-discharged", "%s/%s" % (config, q.path), "cannot evaluate the selection model: %s" % e, b["span"])
                    holds = False
                if not holds:
                    continue
                for u in unwraps(t, []):
                    if T.canon(u[1]) in guarded:
                        continue
                    try:
                        v = c.eval(u[1], {0: x})
                    except conc.ModelPanic as e:
                        v = None
                    except (conc.CannotEvaluate, T.Unsupported) as e:
                        ctx.fail("unwrap-discharged", "%s/%s" % (config, q.path), "cannot evaluate the selection model: %s" % e, b["span"])
                        continue
                    n += 1
                    ctx.ob("unwrap-discharged", "%s/%s/%s" % (config, q.path, cname), v is not None,
                           "Option::unwrap in _fit is reached with None for %s, magnitude %s: no eligible unit (%s)" % (q.path, cname, T.show(u[1])[:200]),
                           b["span"], nontrivial=False)
    return n



# ---------------------------------------------------------------- decimal range (derived operators)
def decimal_range(ctx, config, w):
    """For every by-value derived operator and every unit pair whose named
    magnitudes can lie in range: every arithmetic node of the applicable branch
    stays below the representable bound (see magn.py)."""
    from . import magn, opforms, rules_c04, rules_c06, spec as S
    U_ = w.U
    amt = ws.amount_type(config)
    stats = {"impls": 0, "pairs": 0, "vacuous": 0, "nodes": 0}
    a_, b_ = S.P(0, "self"), S.P(1, "rhs")
    fit_outs, fit_b, _ = G.summarize(U_, G.HRU + "_fit", {"*"})

    def qt(key):
        return w.by_path.get(key)

    def units_of(key):
        """[(variant, scale)] and smallest scale of an operand type."""
        if key == amt:
            return [("One", Fraction(1))], Fraction(1)
        q = qt(key)
        rows = [(v, q.tables["scale"][v][1]) for v in q.variants_const]
        return rows, min(s for _, s in rows)
    for crate in w.crates:
        for q in [x for x in w.qtypes if x.crate is crate and x.kind == "ref"]:
            d = w.decl_of.get(q.path)
            if d is None or d.derived is None:
                continue
            (A, op0, B) = d.derived
            scope = q.path.rsplit("::", 1)[0]
            Ap = rules_c06.resolve_ident(A, scope, w.qtypes, amt)
            Bp = rules_c06.resolve_ident(B, scope, w.qtypes, amt)
            if Ap is None or Bp is None:
                continue
            for (o, X, Y, Rr) in sorted(rules_c06.derived_closure(q.path, Ap, op0, Bp)):
                found = opforms.find_op(w, crate, o, X, Y)
                R = qt(Rr)
                if len(found) != 1 or (R is None and Rr != amt):
                    continue
                imp = found[0][4]
                body = U_.item_body(imp, opforms.OPFN[o])
                ev = T.Evaluator(U_, keep_tags=True, inline={"*"}, stop=G.STOP)
                try:
                    outs = [(g, k, T.canon(t)) for g, k, t in ev.summarize(body)]
                except T.Unsupported as x:
                    ctx.fail("decimal-range", "%s/%s %s %s" % (config, X, o, Y), "unsupported construct: " + x.what, x.sp or body["span"])
                    continue
                stats["impls"] += 1
                UX = rules_c04.unit_path_of(w, X, amt)
                UY = rules_c04.unit_path_of(w, Y, amt)
                sa_t = T.canon(S.scale(S.unit(a_, tag=X), tag=UX))
                sb_t = T.canon(S.scale(S.unit(b_, tag=Y), tag=UY))
                am_a = T.canon(S.amount(a_, tag=X))
                am_b = T.canon(S.amount(b_, tag=Y))
                xrows, xmin = units_of(X)
                yrows, ymin = units_of(Y)
                if Rr == amt:
                    rrows, rmin = [("One", Fraction(1))], Fraction(1)
                    elig_min = Fraction(1)
                else:
                    rrows, rmin = units_of(Rr)
                    ref_pref = R.tables["si_prefix"][R.ref_unit_hru] != ("none",)
                    elig = [s for (v, s) in rrows if (R.tables["si_prefix"][v] != ("none",) or not ref_pref)]
                    elig_min = min(elig)
                rscales = {s for _, s in rrows}
                Rq = R if R is not None else w.by_path.get(amt)
                if Rq is not None and "scale" in Rq.tables:
                    ovl = {k: v2 for k, v2 in G.type_overrides(U_, Rq).items() if k in ("LinearScaledUnit::from_scale", "HasRefUnit::unit_from_scale")}
                    lk_outs, lk_b, lk_ev = G.summarize(U_, G.HRU + "unit_from_scale", {"*"}, stop=G.STOP_LOOKUP, overrides=ovl or None)
                else:
                    Rq = None
                worst = None
                for (u, sa) in xrows:
                    for (v, sb) in yrows:
                        sigma = sa * sb if o == "*" else sa / sb
                        sigma_dec = magn.round18(sigma)
                        if not (magn.L <= sigma <= magn.U):
                            stats["vacuous"] += 1
                            continue
                        alo = max(magn.L / sa, magn.L * xmin / sa)
                        ahi = min(magn.U / sa, magn.U * xmin / sa)
                        blo = max(magn.L / sb, magn.L * ymin / sb)
                        bhi = min(magn.U / sb, magn.U * ymin / sb)
                        rlo = max(magn.L, magn.L * rmin) / sigma
                        rhi = min(magn.U, magn.U * rmin) / sigma
                        reg = magn.Region(o, alo, ahi, blo, bhi, rlo, rhi)
                        if not reg.vertices:
                            stats["vacuous"] += 1
                            continue
                        stats["pairs"] += 1
                        natural = sigma_dec in rscales
                        # the scale lookup is evaluated as the decimal back-end would (its own arithmetic, if any, included)
                        if Rq is not None:
                            try:
                                r_l = conc.Conc(U_, Rq, lk_ev, dec=True).pick(lk_outs, {0: sigma_dec})
                                natural = r_l is not None
                            except conc.ModelPanic as mp:
                                ctx.ob("decimal-range", "%s/%s %s %s/lookup/%s,%s" % (config, X, o, Y, u, v), False,
                                       "with units (%s, %s) the lookup of a result unit of scale %s panics in the decimal back-end although every named magnitude is in range: %s"
                                       % (u, v, float(sigma_dec), mp), lk_b["span"])
                                continue
                            except (conc.CannotEvaluate, T.Unsupported) as ce:
                                ctx.fail("decimal-range", "%s/%s %s %s/lookup" % (config, X, o, Y), "cannot evaluate the scale lookup: %s" % ce, lk_b["span"])
                                continue
                        sel = [(k, t) for (g, k, t) in outs if all((a[0] == "isvar") and (p == natural) for a, p in g)]
                        if len(sel) != 1 or sel[0][0] != "val":
                            ctx.fail("decimal-range", "%s/%s %s %s" % (config, X, o, Y), "cannot select the branch for a unit pair", body["span"])
                            continue
                        t = sel[0][1]

                        def leaf(x, sa=sa, sb=sb):
                            if x == am_a or (X == amt and x == a_):     # (the dimensionless operand is its own amount)
                                return "a"
                            if x == am_b or (Y == amt and x == b_):
                                return "b"
                            if x == sa_t:
                                return sa
                            if x == sb_t:
                                return sb
                            return None
                        nodes = magn.arith_nodes(t)
                        extra = []
                        if t[0] == "app" and t[1] == "HasRefUnit::_fit" and len(t[3]) == 1:
                            # inside _fit: amount / scale(u) for an eligible unit u (smallest: elig_min)
                            extra.append(("/", t[3][0], ("num", elig_min, amt)))
                        for n in nodes + extra:
                            stats["nodes"] += 1
                            try:
                                bnd, wit = magn.bound(n, leaf, reg)
                            except magn.NotMonomial as e:
                                ctx.fail("decimal-range", "%s/%s %s %s/%s*%s" % (config, X, o, Y, u, v), "cannot bound node %s" % e, body["span"])
                                continue
                            if bnd >= magn.THRESH and (worst is None or bnd > worst[0]):
                                worst = (bnd, n, u, v, wit, natural)
                inst = "%s/%s %s %s" % (config, X, o, Y)
                if worst is None:
                    ctx.ob("decimal-range", inst, True, "", body["span"])
                else:
                    (bnd, n, u, v, wit, natural) = worst
                    ctx.ob("decimal-range", inst, False,
                           "decimal overflow for in-range magnitudes: with units (%s, %s) the intermediate %s can reach %.3g (representable: < %.3g) although every named magnitude "
                           "(operands and result in reference and smallest units, combined scale) lies within [1e-15, 1e17] — e.g. amounts %.6g and %.6g with 9 fractional digits each; "
                           "fpdec then panics with 'Internal representation exceeded'" % (u, v, T.show(n), float(bnd), float(magn.THRESH), float(wit[0]), float(wit[1])),
                           body["span"])
    ctx.extra["decimal_range"] = stats
    return stats


def decimal_range_like(ctx, config, w):
    """Like-quantity operations (convert, ==, partial_cmp, +, -, /) of every
    reference-unit type and every ordered unit pair whose scale ratio is in
    range: every arithmetic node stays representable."""
    from . import magn, spec as S
    U_ = w.U
    a_, b_ = S.P(0, "self"), S.P(1, "rhs")
    stats = {"types": 0, "pairs": 0, "nodes": 0, "vacuous": 0}
    am_a = T.canon(S.amount(a_))
    ua = T.canon(S.unit(a_))
    sa_t = T.canon(S.scale(ua))
    fns = []
    for fn, second, kind in (("convert", "unit", "unit"), ("eq", "qty", "cmp"), ("partial_cmp", "qty", "cmp"), ("add", "qty", "sum"), ("sub", "qty", "sum"), ("div", "qty", "ratio")):
        try:
            outs, body, _ = G.summarize(U_, G.HRU + fn, G.INL_CONV)
        except ModelError as e:
            ctx.fail("decimal-range-like", "%s/%s" % (config, fn), "%s: %s" % (e.rule, e.what), e.where)
            continue
        p1 = S.P(1, body["params"][1]["pat"]["name"])
        fns.append((fn, second, kind, outs, body, p1))
    for q in w.qtypes:
        if q.kind != "ref":
            continue
        stats["types"] += 1
        rows = [(v, q.tables["scale"][v][1]) for v in q.variants_const]
        smin = min(s for _, s in rows)
        for (fn, second, kind, outs, body, p1) in fns:
            if second == "unit":
                ub, am_b = p1, None
            else:
                ub, am_b = T.canon(S.unit(p1)), T.canon(S.amount(p1))
            sb_t = T.canon(S.scale(ub))
            worst = None
            for (u, sa) in rows:
                for (v, sb) in rows:
                    ratio = sb / sa
                    if u != v and not (magn.L <= ratio <= magn.U):
                        stats["vacuous"] += 1
                        continue
                    alo, ahi = max(magn.L / sa, magn.L * smin / sa), min(magn.U / sa, magn.U * smin / sa)
                    blo, bhi = max(magn.L / sb, magn.L * smin / sb), min(magn.U / sb, magn.U * smin / sb)
                    if kind == "ratio":
                        # divisor expressed in the dividend's unit, and the dimensionless result, are named magnitudes
                        blo, bhi = max(blo, magn.L * sa / sb), min(bhi, magn.U * sa / sb)
                        reg = magn.Region("/", alo, ahi, blo, bhi, magn.L * sb / sa, magn.U * sb / sa)
                    else:
                        reg = magn.Region("*", alo, ahi, blo, bhi, Fraction(0), Fraction(10) ** 80)
                    if not reg.vertices:
                        stats["vacuous"] += 1
                        continue
                    stats["pairs"] += 1

                    def atom_val(at):
                        at = T.canon(at)
                        if at[0] == "==" and set(at[1:]) == {ua, ub}:
                            return u == v
                        m = {sa_t: sa, sb_t: sb}
                        if at[0] in ("<", "<=", "==") and at[1] in m and at[2] in m:
                            x, y = m[at[1]], m[at[2]]
                            return {"<": x < y, "<=": x <= y, "==": x == y}[at[0]]
                        return None
                    sel = []
                    for (g, k, t) in outs:
                        vals = [(atom_val(a), p) for a, p in g]
                        if any(x is None for x, _ in vals):
                            sel = None
                            break
                        if all(x == p for x, p in vals):
                            sel.append((k, t))
                    if not sel or len(sel) != 1 or sel[0][0] != "val":
                        ctx.fail("decimal-range-like", "%s/%s/%s" % (config, q.path, fn), "cannot select the case for units (%s, %s)" % (u, v), body["span"])
                        worst = "x"
                        break

                    def leaf(x, sa=sa, sb=sb):
                        if x == am_a:
                            return "a"
                        if am_b is not None and x == am_b:
                            return "b"
                        if x == sa_t:
                            return sa
                        if x == sb_t:
                            return sb
                        return None
                    for n in magn.arith_nodes(sel[0][1]):
                        stats["nodes"] += 1
                        try:
                            bnd, wit = magn.bound(n, leaf, reg)
                        except magn.NotMonomial as e:
                            ctx.fail("decimal-range-like", "%s/%s/%s" % (config, q.path, fn), "cannot bound node %s" % e, body["span"])
                            continue
                        lim = magn.THRESH * 2 if n[0] in ("+", "-") else magn.THRESH
                        if bnd >= lim and (worst is None or (worst != "x" and bnd > worst[0])):
                            worst = (bnd, n, u, v, wit)
                if worst == "x":
                    break
            if worst == "x":
                continue
            inst = "%s/%s/%s" % (config, q.path, fn)
            if worst is None:
                ctx.ob("decimal-range-like", inst, True, "", body["span"], nontrivial=False)
            else:
                (bnd, n, u, v, wit) = worst
                ctx.ob("decimal-range-like", inst, False,
                       "decimal overflow for in-range magnitudes: %s between units (%s, %s): the intermediate %s can reach %.3g (representable: < %.3g) — e.g. amounts %.6g and %.6g"
                       % (fn, u, v, T.show(n), float(bnd), float(magn.THRESH), float(wit[0]), float(wit[1])), body["span"])
    ctx.extra["decimal_range_like"] = stats
    return stats


class _RateProxy:
    """Routes C13's named-intermediates obligations into C18 (the other rate rules are C13's own business)."""

    def __init__(self, ctx):
        self.real = ctx
        self.n = 0
        self.samples = []
        self.extra = {}
        self.configs = []
        self.tier = ctx.tier
        self.seed = ctx.seed

    def ob(self, rule, instance, ok, detail="", where=None, nontrivial=True):
        if rule == "rate-intermediates":
            self.n += 1
            self.real.ob("decimal-range-rate", instance, ok,
                         detail + " — so the operation can overflow / lose all digits in the decimal back-end although every magnitude the property names is in range",
                         where, nontrivial=False)
        return ok

    def fail(self, rule, instance, detail, where=None):
        if rule.startswith("rate"):
            self.real.fail("decimal-range-rate", instance, "rate operation not analysable: " + detail, where)

    def sample(self, *a, **k):
        pass

    def floor(self, *a, **k):
        pass


def decimal_range_rate(ctx, config, w):
    """Rate operations in the decimal back-end: every arithmetic node is one of the magnitudes the property names —
    the divisor expressed in the dividend's unit (the like-quantity ratio), value / per value, the result — which lie
    in the admissible range by the property's premise; the like-quantity division itself is decimal-range-like."""
    from . import rules_c13
    px = _RateProxy(ctx)
    rules_c13.generic_rules(px, config, w.U)
    rules_c13.per_type(px, config, w)
    return px.n


def fmt_error_origin(ctx, config, w):
    """`to_string()` / `format!` panic ("a formatting trait implementation returned an error") when a Display impl
    returns an error the Formatter did not produce.  The library's formatting code only ever passes on the
    Formatter's own results; so: no body of the library crates constructs a `core::fmt::Error` value (expected
    count zero — who-may-construct rule; the scanner's shape is self-tested on a constructed node)."""
    def constructions(e, acc):
        if isinstance(e, dict):
            if e.get("k") == "adt" and e.get("path") == "core::fmt::Error" and "fields" in e:
                acc.append(e.get("sp"))
            for v in e.values():
                constructions(v, acc)
        elif isinstance(e, list):
            for v in e:
                constructions(v, acc)
        return acc
    probe = {"k": "block", "stmts": [], "expr": {"k": "adt", "path": "core::result::Result", "variant": "Err", "fields": [
        {"name": "0", "e": {"k": "adt", "path": "core::fmt::Error", "variant": "Error", "fields": [], "sp": "probe"}}]}}
    ctx.ob("positive-control", "fmt-error-scanner", constructions(probe, []) == ["probe"], "the scanner does not recognise a constructed fmt::Error")
    n = 0
    for crate in w.crates:
        if crate.is_test:
            continue
        for d, body in sorted(crate.bodies.items()):
            n += 1
            for sp in constructions(body.get("value"), []):
                ctx.fail("fmt-error-origin", "%s/%s/%s" % (config, crate.name, d),
                         "%s constructs a core::fmt::Error: a Display impl returning an error that the Formatter did not produce makes "
                         "to_string() / format! panic" % d, sp or body.get("span"))
    ctx.ob("fmt-error-origin", config, True, "")
    return n


def run(ctx):
    total_bodies = 0
    for config in ("f64-all", "dec-all"):
        w = ws.load(config)
        ctx.configs.append(config)
        amt = ws.amount_type(config)
        scope = operations_scope(w)
        ctx.floor("%s: bodies in the scope of the named operations" % config, len(scope), 500)
        for crate in w.crates:
            if crate.is_test:
                continue
            nb, sites = inventory(ctx, config, crate, amt, table_functions(w), scope, U_inv=w.U)
            total_bodies += nb
            if crate.name == "quantities":
                exp = {(d, wh) for (d, wh, sp) in sites}
                for k in EXPECTED:
                    if k[1].endswith("::expect"):
                        continue   # alternative spelling of the unwrap in _fit
                    if k[1].endswith("::unwrap") and (k[0], k[1][:-6] + "expect") in exp:
                        continue
                    ctx.ob("documented-panic-present", "%s/%s" % (config, k[0]), k in exp, "expected site %s not found (inventory incomplete?)" % (k,), None, nontrivial=False)
            n = who_may_panic(ctx, config, w, crate)
        nfe = fmt_error_origin(ctx, config, w)
        ctx.floor("%s: library bodies scanned for constructed fmt::Error values" % config, nfe, 1050 if config == "dec-all" else 950)
        n = unwrap_discharge(ctx, config, w)
        ctx.floor("%s: unwrap discharge evaluations" % config, n, 250)
        if amt != "f64":
            st = decimal_range(ctx, config, w)
            ctx.floor("%s: derived operators range-analysed" % config, st["impls"], 34 + 8)
            ctx.floor("%s: unit pairs range-analysed" % config, st["pairs"], 1500)
            nr = decimal_range_rate(ctx, config, w)
            ctx.floor("%s: rate operations with only named intermediates" % config, nr, 25)
            st2 = decimal_range_like(ctx, config, w)
            ctx.floor("%s: like-quantity (type, unit pair, operation) cases range-analysed" % config, st2["pairs"], 5000)
    ctx.floor("library bodies inventoried", total_bodies, 1000)
    # positive control: the vocabulary must match the known sites
    ctx.ob("positive-control", "vocabulary", bool(PANIC_VOCAB.search("core::option::Option::<T>::unwrap")) and bool(PANIC_VOCAB.search("core::panicking::panic_fmt"))
           and not PANIC_VOCAB.search("core::option::Option::<T>::unwrap_or"), "panic vocabulary self-test failed")
    ctx.rule_text = "every MIR call / assert terminator of every library body (serde derives excluded: serialisation is not an operation of C18) classified; reachability of documented panics; unwrap discharged per type and cell"
    ctx.trusted = ["rustc MIR construction (all panicking checks are explicit Assert terminators or calls)", "f64 arithmetic, comparison and `as` casts never panic (language semantics)",
                   "the allow-listed std functions (iterators, formatting, Option/Result combinators, String) do not panic short of allocation failure"]
    ctx.assumptions = ["NOT decided: fpdec's +, -, *, / do not overflow for magnitudes within the property's stated range (needs a numeric range analysis over i128 coefficients); "
                       "the decimal half is claimed only as: no panic source other than fpdec arithmetic and the documented ones"]
    ctx.explanation = ("Complete inventory of panic-capable sites in library MIR in both back-ends: the only sites are the three documented mixed-unit panics (unreachable from "
                       "reference-unit types by the resolved call graph) and one Option::unwrap in _fit, discharged for every result type and every cell of its order partition "
                       "from the extracted tables. Any new unwrap/expect/index/assert/diverging call or unvetted std callee in library code is reported with file:line.")
