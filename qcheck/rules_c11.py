"""C11 — generated types reflect their declaration (translation validation).

For every macro instance compiled anywhere in the workspace and for a witness
corpus of permuted / re-spelled definitions, in both amount back-ends, the
declaration (Engine B, un-expanded source) and the expansion (Engine A,
type-checked program) must agree.  Quantifier over programs: only the
instances in the tree and the fixed corpus are validated."""
import os
import random
from fractions import Fraction

from . import decls as D, facts, fold, link, model, rules_c06, witness, ws
from .model import ModelError

# ---------------------------------------------------------------- validator


def literal_value(u, amt):
    """The literal's exact value in the amount type."""
    if amt == "f64":
        if u.scale_kind == "int":
            return Fraction(float(int(u.scale)))
        # correctly rounded double of the decimal text (separators / suffix removed)
        return Fraction(float(u.scale))
    return u.scale


def validate_instance(ctx, label, d, q, amt, stats):
    inst = "%s/%s" % (label, q.path)
    where = "%s:%d" % (d.file, d.line_start)
    stats["programs"] += 1
    ok_n = ctx.ob("variants", inst, len(d.units) == len(q.variants) == len(set(q.variants)),
                  "%d declared units, enum variants %s" % (len(d.units), q.variants), where)
    ctx.ob("code-path", inst, d.kind() == q.kind, "declaration takes the %s path but the expansion is %s" % (d.kind(), q.kind), where)
    want_fields = [("amount", amt)] if q.kind == "single" else [("amount", amt), ("unit", q.unit_path)]
    ctx.ob("struct-fields", inst, q.struct_fields == want_fields, "struct fields %s, expected %s" % (q.struct_fields, want_fields), where)
    for u in d.units:
        var = D.upper_camel(u.ident)
        ui = "%s/%s" % (inst, u.ident)
        uw = "%s:%d" % (d.file, u.line)
        if var not in q.variants:
            ctx.fail("variant", ui, "no enum variant %s (variants %s)" % (var, q.variants), uw)
            continue
        stats["fields"] += 3
        ctx.ob("name", ui, q.tables["name"][var] == ("str", u.ident.replace("_", " ")),
               "name() is %r, identifier spells %r" % (q.tables["name"][var], u.ident.replace("_", " ")), uw)
        ctx.ob("symbol", ui, q.tables["symbol"][var] == ("str", u.symbol), "symbol() is %r, declared %r" % (q.tables["symbol"][var], u.symbol), uw)
        exp_p = ("none",) if u.prefix is None else ("some", ("variant", "quantities::si_prefixes::SIPrefix", u.prefix))
        ctx.ob("si-prefix", ui, q.tables["si_prefix"][var] == exp_p, "si_prefix() is %r, declared %r" % (q.tables["si_prefix"][var], u.prefix), uw)
        if q.kind == "ref":
            stats["fields"] += 1
            gs = q.tables["scale"][var]
            if u.scale is None:
                # not spelled as a literal on this attribute (a form this checker does not know): the value is judged
                # against the published definition by C07; here only its wiring into a constant of the amount type
                ctx.ob("scale", ui, gs[0] == "num" and gs[2] == amt, "scale() is %s, not a constant of the amount type" % (gs,), uw)
                ctx.extra.setdefault("scales_not_written_as_literals", []).append(ui)
            else:
                want = literal_value(u, amt)
                ctx.ob("scale", ui, gs[0] == "num" and gs[2] == amt and gs[1] == want,
                       "scale() is %s (%s), the literal %s denotes %s in the amount type" % (gs[1] if gs[0] == "num" else gs, gs[3] if gs[0] == "num" else "", u.scale_text, want), uw)
        # constant
        scope = q.path.rsplit("::", 1)[0] + "::"
        cn = D.upper_snake(u.ident)
        got = q.consts.get(scope + cn)
        stats["fields"] += 1
        ctx.ob("constant", ui, got is not None and got[0] == var, "constant %s%s is %s, expected unit %s" % (scope, cn, got and got[0], var), uw)
    want_order = [D.upper_camel(u.ident) for u in d.expected_order(lambda u: (q.tables.get("scale", {}).get(D.upper_camel(u.ident)) or (None, None))[1])]
    stats["fields"] += 1
    ctx.ob("order", inst, q.variants_const == want_order, "VARIANTS %s, specified order %s" % (q.variants_const, want_order), where)
    if q.kind == "ref":
        refs = [u for u in d.units if u.is_ref]
        ctx.ob("ref-unit", inst, len(refs) == 1 and q.ref_unit_hru == q.ref_unit_lsu == D.upper_camel(refs[0].ident),
               "REF_UNIT %s/%s, declared %s" % (q.ref_unit_hru, q.ref_unit_lsu, [u.ident for u in refs]), where)
    else:
        ctx.ob("ref-unit", inst, q.impl_hru is None and q.impl_lsu is None and not any(u.is_ref for u in d.units if q.kind == "noref"),
               "type without reference unit has conversion traits", where)


# ------------------------------------------------------------------ corpus
BASE_A = [  # reference unit, SI prefixes, equal-scale units spelled differently, non-ASCII symbols
    ('#[ref_unit(Gram, "g", NONE, "reference unit")]', None),
    ('#[unit(Milligram, "mg", MILLI, 0.001, "a doc string")]', None),
    ('#[unit(Milli_E, "m′", 1e-3)]', None),
    ('#[unit(Kilogram, "kg", KILO, 1000)]', None),
    ('#[unit(Kilo_Dot, "k.", 1000.)]', None),
    ('#[unit(Kilo_Dot_Zero, "k.0", 1000.0, "1000.0")]', None),
    ('#[unit(Kilo_Exp, "k³", 1e3)]', None),
    ('#[unit(Kilo_Sep, "k_", 1_000)]', None),
    ('#[unit(Pound_Like, "µΩ", 0.45359237)]', None),
    ('#[unit(Also_One, "one", 1)]', None),
    ('#[unit(HalfUnit, "½", 0.5)]', None),
    # neighbouring scales far from one: an approximate comparator would merge them
    ('#[unit(Ten_Atto, "ta", 1e-17)]', None),
    ('#[unit(Atto_Like, "al", 1e-18)]', None),
    ('#[unit(Big_Next, "BN", 100000000000000016.0)]', None),
    ('#[unit(Big_Round, "BR", 1e17)]', None),
    # identifiers with letter|digit word boundaries (the constant's name splits there, the variant's does not show it)
    ('#[unit(m3_per_h, "m³/h", 3600.5)]', None),
    ('#[unit(Mol_H2O, "mol", 18.015)]', None),
    ('#[unit(Km3, "km³", 1e9)]', None),
]
BASE_B = [('#[unit(Zeta_Unit, "z")]', None), ('#[unit(Alpha, "α", "first by name")]', None), ('#[unit(Mid_Unit, "m")]', None), ('#[unit(Beta, "β")]', None),
          # identifiers whose NAME order differs from the order of the re-cased variant identifiers
          ('#[unit(Rockwell_B, "HRB")]', None), ('#[unit(RockwellA, "HRA")]', None), ('#[unit(phon, "ph")]', None), ('#[unit(Sone_Unit, "so")]', None),
          ('#[unit(Liter_per_s2, "l/s²")]', None), ('#[unit(CO2eq, "CO₂e")]', None), ('#[unit(x86Word, "w")]', None)]
BASE_C = [('#[unit(Only_One, "1")]', None)]
FOO = ['#[quantity]', '#[unit(Kiloflop, "kf", KILO, 1000.)]', '#[ref_unit(Flop, "f", NONE)]', '#[unit(Centiflop, "cf", CENTI, 0.01)]', 'pub struct Foo {}']
BAR = ['#[quantity]', '#[ref_unit(Emil, "e")]', '#[unit(Milliemil, "me", 0.001)]', '#[unit(Kiloemil, "ke", 1000)]', 'pub struct Bar {}']
BASE_D = [('#[ref_unit(Bazoo, "b", NONE)]', None), ('#[unit(Millibazoo, "mb", MILLI, 0.001)]', None), ('#[unit(Kilobazoo, "kb", KILO, 1e3)]', None),
          ('#[unit(Ten_Bazoo, "10b", 10)]', None)]


def corpus(seed):
    rnd = random.Random(seed * 7919 + 11)
    mods = []
    bases = {}

    def variants(name, attrs, head, tail_struct, n_perm, pre=()):
        perms = [list(range(len(attrs)))]
        # reference unit first / last / middle, then random permutations
        ref = [i for i, (a, _) in enumerate(attrs) if a.startswith("#[ref_unit")]
        if ref:
            r = ref[0]
            rest = [i for i in range(len(attrs)) if i != r]
            perms += [rest + [r], rest[:len(rest) // 2] + [r] + rest[len(rest) // 2:]]
        perms.append(list(reversed(range(len(attrs)))))
        while len(perms) < n_perm:
            p = list(range(len(attrs)))
            rnd.shuffle(p)
            if p not in perms:
                perms.append(p)
        for k, p in enumerate(perms[:n_perm]):
            lines = ["pub mod %s_p%d {" % (name, k), "    use quantities::prelude::*;"]
            for l in pre:
                lines.append("    " + l)
            lines.append("    " + head)
            for j, i in enumerate(p):
                if j % 3 == 1:
                    lines.append("    /// interleaved documentation line %d" % j)
                lines.append("    " + attrs[i][0])
            lines.append("    " + tail_struct)
            lines.append("}")
            mods.append("\n".join(lines))
            bases.setdefault(name, []).append("%s_p%d" % (name, k))
    variants("a", BASE_A, "#[quantity]", "pub struct Aq {}", 6)
    variants("b", BASE_B, "#[quantity]", "pub struct Bq {}", 4)
    variants("c", BASE_C, "#[quantity]", "pub struct Cq {}", 1)
    variants("d", BASE_D, "#[quantity(Foo * Bar)]", "pub struct Baz {}", 4, pre=FOO + [""] + BAR + [""])
    variants("e", BASE_D, "#[quantity(Foo / Bar)]", "pub struct Qux {}", 3, pre=FOO + [""] + BAR + [""])
    src = "#![allow(dead_code, non_camel_case_types, clippy::all)]\n// generated witness corpus for C11 (type-checked only)\n\n" + "\n\n".join(mods) + "\n"
    return src, bases


class CorpusWS:
    pass


def load_corpus(ctx, label, features, seed):
    d = witness.workdir("c11-" + label)
    src, bases = corpus(seed)
    witness.write_crate(d, "c11w", features=features, lib=src)
    crate = witness.extract(d, "c11w", "witness-c11-" + label, "corpus-" + label)
    base_ws = ws.load("dec-all" if "fpdec" in features else "f64-all")
    lib = base_ws.fs.get("quantities")
    w = CorpusWS()
    w.config = "corpus-" + label
    w.crates = [crate, lib]
    w.U = model.Universe(base_ws.fs, [crate, lib])
    w.qtypes = []
    for q in w.U.qtypes(crate):
        w.U.fill_tables(q)
        w.qtypes.append(q)
    scan = D.scan([os.path.join(d, "src", "lib.rs")], cache=False)
    w.decls = [D.QtyDecl(x) for f in scan["files"] for x in f["defs"]]
    w.decl_of = {}
    w.pairs = []
    for dd in w.decls:
        path = "c11w::" + "::".join(c.split(" ", 1)[1] for c in dd.ctx) + "::" + dd.ident
        q = next((x for x in w.qtypes if x.path == path), None)
        if q is None:
            ctx.fail("corpus-linkage", "%s/%s" % (label, path), "corpus definition has no generated type", "%s:%d" % (dd.file, dd.line_start))
            continue
        w.decl_of[q.path] = dd
        w.pairs.append((dd, q))
    w.by_path = {q.path: q for q in w.qtypes}
    w.fs = base_ws.fs
    return w, crate, bases


def permutation_rule(ctx, label, w, bases, stats):
    """Facts of all permutations of one base are identical except for the
    relative order of equal-scale units."""
    for base, mods in bases.items():
        views = []
        for m in mods:
            qs = [q for q in w.qtypes if q.path.startswith("c11w::%s::" % m)]
            view = {}
            for q in qs:
                rows = frozenset((v, q.tables["name"][v], q.tables["symbol"][v], q.tables["si_prefix"][v],
                                  q.tables.get("scale", {}).get(v, ("-",))[1:2]) for v in q.variants)
                scales = [q.tables["scale"][v][1] for v in q.variants_const] if q.kind == "ref" else None
                view[q.name] = (q.kind, rows, scales, q.ref_unit_hru, tuple(q.struct_fields[:1]))
            ops = frozenset((o, s.replace(m, "M"), r.replace(m, "M"), (out or "").replace(m, "M")) for (o, s, r, out, imp) in w.U.op_impls(w.crates[0])
                            if ("::%s::" % m) in s or ("::%s::" % m) in r)
            views.append((m, view, ops))
        ref = views[0]
        for (m, view, ops) in views[1:]:
            stats["fields"] += 2
            same = view == ref[1] or all(
                view.get(k) is not None and view[k][0] == ref[1][k][0] and view[k][1] == ref[1][k][1] and view[k][2] == ref[1][k][2] and view[k][3] == ref[1][k][3]
                for k in ref[1])
            ctx.ob("permutation-invariance", "%s/%s/%s" % (label, base, m), same and set(view) == set(ref[1]),
                   "reordering the attributes of base %s changes the generated tables (module %s vs %s)" % (base, m, ref[0]), "corpus module " + m)
            ctx.ob("permutation-operators", "%s/%s/%s" % (label, base, m), ops == ref[2],
                   "reordering the attributes changes the operator impl set: %s" % sorted(ops ^ ref[2])[:3], "corpus module " + m)


def equal_spellings(ctx, label, w):
    """1000, 1000., 1000.0, 1e3, 1_000 and 0.001, 1e-3 denote one number each."""
    for q in w.qtypes:
        if q.name != "Aq":
            continue
        t = q.tables["scale"]
        kilo = {v: t[v][1] for v in ("Kilogram", "KiloDot", "KiloDotZero", "KiloExp", "KiloSep") if v in t}
        milli = {v: t[v][1] for v in ("Milligram", "MilliE") if v in t}
        ctx.ob("literal-spellings", "%s/%s/1000" % (label, q.path), len(kilo) == 5 and set(kilo.values()) == {Fraction(1000)},
               "spellings of 1000 give %s" % {k: str(v) for k, v in kilo.items()}, q.span)
        ctx.ob("literal-spellings", "%s/%s/0.001" % (label, q.path), len(milli) == 2 and len(set(milli.values())) == 1,
               "spellings of 0.001 give %s" % {k: str(v) for k, v in milli.items()}, q.span)


def macro_structure(ctx):
    """Structural rules on the macro crate itself — independent of function
    names: every sort anywhere in the proc-macro crate is the stable slice
    sort with an exact single-key comparator."""
    from . import term as T, thirwalk
    from .rules_c02 import subst
    fs = facts.factset("f64-all")
    c = fs.get("qty_macros")
    U = model.Universe(fs, [c])
    sorts = []
    for path, body in c.bodies.items():
        if "::tests::" in path or "_tests::" in path:
            continue
        for call in thirwalk.calls(body.get("value"), lambda f: "sort" in f["name"]):
            sorts.append((path, body, call))
    ctx.ob("macro-sort-calls", "qty_macros", len(sorts) >= 2,
           "the macro crate contains %d sort calls; the unit order by scale and by name needs one each" % len(sorts), c.src)
    for i, (path, body, call) in enumerate(sorts):
        f = call["fn"]
        inst = "%s/sort#%d" % (path.split("::")[-1], i)
        stable = f["path"] in ("alloc::slice::<impl [T]>::sort_by", "alloc::slice::<impl [T]>::sort_by_key",
                               "alloc::slice::<impl [T]>::sort_by_cached_key", "alloc::slice::<impl [T]>::sort")
        ctx.ob("macro-stable-sort", inst, stable,
               "units are ordered with %s: the declaration order of equal-scale units is only preserved by the stable slice sorts" % f["path"], call.get("sp"))
        by_key = f["name"] in ("sort_by_key", "sort_by_cached_key")
        ev = T.Evaluator(U, keep_tags=False, max_depth=0)
        A, B = T.P(1, "a"), T.P(2, "b")
        fargs = [model.peel(a) for a in call["args"][1:]]
        try:
            if len(fargs) != 1:
                raise T.Unsupported("sort call without a comparator / key function")
            fa = fargs[0]
            if fa["k"] == "closure":
                outs = ev.summarize_closure(("closure", fa["def"], ()), [A] if by_key else [A, B])
            elif fa["k"] == "zst" and fa.get("fn") and fa["fn"]["path"] in U.body:
                outs = T.Evaluator(U, keep_tags=False, max_depth=0).summarize(U.body[fa["fn"]["path"]], args=[A] if by_key else [A, B])
            else:
                raise T.Unsupported("comparator is neither a closure nor a function of the macro crate")
        except T.Unsupported as x:
            ctx.fail("macro-comparator", inst, "unsupported construct in the sort comparator: " + x.what, x.sp or call.get("sp"))
            continue
        desc = "; ".join("[%s] %s" % (T.show_guard(g), T.show(T.canon(t))) for g, k, t in outs)
        ok = False
        if len(outs) == 1 and not outs[0][0] and outs[0][1] == "val":
            t = outs[0][2]
            key_a = None
            if by_key:
                key_a = t
                ok = True
            else:
                if t[0] == "unwrap":
                    t = t[1]
                pair = None
                if t[0] == "pcmp":
                    pair = (t[1], t[2])
                elif t[0] == "app" and t[1].endswith("::cmp") and len(t[3]) == 2:
                    pair = (t[3][0], t[3][1])
                if pair:
                    key_a = pair[0]
                    ok = T.canon(subst(pair[0], {A: B})) == T.canon(pair[1])
            if ok:
                fl = flatten(key_a)
                # the key is the declared scale (reference-unit path) resp. the unit NAME (other path) of its own argument
                keyfield = [x[2] for x in fl if x[0] == "field" and x[1] == A]
                # WHICH key is used (declared scale / unit name) is decided on the expansions of the witness corpus, whose
                # scales, names, symbols and identifiers all order differently; here only: one key function, applied alike
                ok = A in fl and B not in fl
                desc += "  [key field: %s]" % keyfield
                ctx.extra.setdefault("sort_keys", {})[inst] = keyfield
        ctx.ob("macro-comparator", inst, ok,
               "the sort is not an exact ordering `key(a).cmp(key(b))` with one key function applied to both elements — observed: %s" % desc,
               call.get("sp"))


def flatten(t, acc=None):
    acc = acc if acc is not None else []
    if isinstance(t, tuple):
        acc.append(t)
        for x in t[1:]:
            if isinstance(x, tuple):
                flatten(x, acc)
                if x and isinstance(x[0], tuple):
                    for y in x:
                        flatten(y, acc)
    return acc


def run(ctx):
    stats = {"programs": 0, "fields": 0}
    # 1. every macro instance compiled in the workspace
    for config in ("f64-all", "dec-all"):
        w = ws.load(config)
        ctx.configs.append(config)
        amt = ws.amount_type(config)
        for d in w.un_d:
            ctx.fail("linkage", "%s/%s" % (config, d.key), "declared quantity has no generated type", "%s:%d" % (d.file, d.line_start))
        for q in w.un_q:
            ctx.fail("linkage", "%s/%s" % (config, q.path), "generated quantity type without declaration", q.span)
        for d, q in w.pairs:
            validate_instance(ctx, config, d, q, amt, stats)
    n_ws = stats["programs"]
    # 2. witness corpus
    seeds = [ctx.seed] if ctx.tier != "thorough" else [ctx.seed + i for i in range(4)]
    runs = [(l, f, sd) for sd in seeds for (l, f) in (("f64", []), ("dec", ["fpdec"]))]
    for label, feats, sd in runs:
        w, crate, bases = load_corpus(ctx, label, feats, sd)
        if sd != ctx.seed:
            w.config = "%s-seed%d" % (w.config, sd)
        ctx.configs.append(w.config)
        amt = "fpdec::Decimal" if feats else "f64"
        for d, q in w.pairs:
            validate_instance(ctx, w.config, d, q, amt, stats)
        permutation_rule(ctx, w.config, w, bases, stats)
        equal_spellings(ctx, w.config, w)
        # operator set of every corpus instance = closure of its declaration (C06 rules 3-5 on the corpus crate)
        counts = {"derivations": set(), "by_value_derived": set(), "derived_impls": set(), "qtypes": set()}
        for q in w.qtypes:
            q.crate = crate
        rules_c06.check_crate(ctx, w.config, w, crate, {}, counts)
        ctx.sample({"corpus": label, "definitions": len(w.pairs), "modules": sum(len(v) for v in bases.values())})
    macro_structure(ctx)
    ctx.floor("workspace macro instances validated", n_ws, 27 + 24)
    ctx.floor("corpus definitions validated", stats["programs"] - n_ws, 2 * 30 * len(seeds))
    ctx.extra["programs"] = stats["programs"]
    ctx.extra["disagreements_checked"] = len(ctx.obs)
    ctx.rule_text = "per macro instance (workspace + corpus, both back-ends): variants, names, symbols, prefixes, scales as literal values in the amount type, order, constants, code path, operator set; per corpus base: permutation invariance"
    ctx.trusted = ["rustc macro expansion and type checking", "declscan (syn) reads the attributes as written"]
    ctx.assumptions = ["quantifier over programs: only the macro instances in the tree and the fixed witness corpus (seeded by VERIF_SEED) are validated, not arbitrary random definitions"]
    ctx.explanation = ("Translation validation of every expansion that exists: the un-expanded declaration and the type-checked expansion are extracted by two independent engines and compared "
                       "field by field. The corpus re-spells the same numbers (1000, 1000., 1000.0, 1e3, 1_000 / 0.001, 1e-3), permutes attributes, interleaves docs, uses non-ASCII symbols, "
                       "covers the three code paths and both derivation forms; permutations of one base must yield identical facts up to the order of equal-scale units.")
