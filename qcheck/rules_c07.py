"""C07 — catalogue units carry their defined scales, prefixes and symbols.

Decides, for every unit of every catalogue / astronomical quantity and both
amount back-ends: generated tables (Engine A, folded constants) == declared
attribute rows (Engine B) == independent definition table (oracle), by exact
rational arithmetic.
"""
from fractions import Fraction

from . import decls as D
from . import fold, oracle, ws

TWO52 = Fraction(1, 2 ** 52)


def prefix_exp_table(w):
    """SIPrefix variant -> exponent from the enum discriminants (Engine A)."""
    c = w.fs.get("quantities")
    adt = c.adt_by_path["quantities::si_prefixes::SIPrefix"]
    return {v["name"]: int(v["discr"]) for v in adt["variants"]}


def check_config(ctx, config, orc, counts):
    w = ws.load(config)
    ctx.configs.append(config)
    pexp = prefix_exp_table(w)
    amt = ws.amount_type(config)
    for d in w.un_d:
        ctx.fail("linkage", "%s/%s" % (config, d.key),
                 "declared quantity has no generated type in the type-checked program",
                 "%s:%d" % (d.file, d.line_start))
    for q in w.un_q:
        ctx.fail("linkage", "%s/%s" % (config, q.path),
                 "generated quantity type has no #[quantity] declaration found by the scanner", q.span)
    for d, q in w.pairs:
        crate = q.crate.name
        if crate not in ("quantities", "astronomical_quantities"):
            continue
        oq = orc.get(q.path)
        qlabel = "%s/%s" % (crate, q.name)
        where = "%s:%d" % (d.file, d.line_start)
        if len(d.units) != len(q.variants):
            ctx.fail("variants", "%s/%s" % (config, qlabel),
                     "%d declared units but %d enum variants" % (len(d.units), len(q.variants)), where)
        if oq is None:
            ctx.unverified.append("%s: quantity unknown to the oracle" % q.path)
        elif set(oq.units) - {u.ident for u in d.units}:
            ctx.fail("completeness", "%s/%s" % (config, qlabel),
                     "units of the published definition table missing from the declaration: %s"
                     % sorted(set(oq.units) - {u.ident for u in d.units}), where)
        refs = [u for u in d.units if u.is_ref]
        ref_pref = refs[0].prefix if refs else None
        si_rows = []
        symbols = {}
        for u in d.units:
            counts["units"].add((crate, q.name, u.ident))
            uw = "%s:%d" % (d.file, u.line)
            inst = "%s/%s/%s" % (config, qlabel, u.ident)
            var = D.upper_camel(u.ident)
            if var not in q.variants:
                ctx.fail("variant", inst, "no enum variant %s for declared unit %s (variants: %s)" % (var, u.ident, q.variants), uw)
                continue
            ou = oq.units.get(u.ident) if oq else None
            if oq is not None and ou is None:
                ctx.unverified.append("%s::%s: unit unknown to the oracle" % (q.path, u.ident))
            # 1. symbol
            gsym = q.tables["symbol"][var]
            ok = gsym == ("str", u.symbol)
            ctx.ob("symbol-generated", inst, ok, "generated symbol %r, declared %r" % (gsym, u.symbol), uw)
            if ou is not None:
                ctx.ob("symbol-published", inst, u.symbol == ou.symbol,
                       "declared symbol %r, published symbol %r" % (u.symbol, ou.symbol), uw)
            symbols.setdefault(u.symbol, []).append(u.ident)
            # 2. name
            gname = q.tables["name"][var]
            ctx.ob("name", inst, gname == ("str", u.ident.replace("_", " ")),
                   "generated name %r, identifier spells %r" % (gname, u.ident.replace("_", " ")), uw)
            # 3. prefix
            gp = q.tables["si_prefix"][var]
            exp_gp = ("none",) if u.prefix is None else ("some", ("variant", "quantities::si_prefixes::SIPrefix", u.prefix))
            ctx.ob("prefix-generated", inst, gp == exp_gp, "generated si_prefix %r, declared %r" % (gp, u.prefix), uw)
            if u.prefix is not None and u.prefix not in pexp:
                ctx.fail("prefix-generated", inst, "declared prefix %s is not an SIPrefix variant" % u.prefix, uw)
            if ou is not None and ou.value is not None:
                want = expected_prefix(ou, ref_pref, pexp)
                ctx.ob("prefix-published", inst, u.prefix == want,
                       "declared prefix %s, expected %s (definition %s = %s × reference unit, reference prefix %s)"
                       % (u.prefix, want, ou.expr, ou.value, ref_pref), uw)
            if q.kind != "ref":
                continue
            # 4. wiring + literal conversion
            gs = q.tables["scale"][var]
            if gs[0] != "num" or gs[2] != amt:
                ctx.fail("scale-generated", inst, "generated scale %r is not a constant of the amount type %s" % (gs, amt), uw)
                continue
            computed = u.scale is None
            if computed:
                # the scale is not written as a literal on this attribute (an attribute form this checker does not
                # know, e.g. a scale computed by the macro): nothing to compare the wiring with, so the generated
                # constant itself is held against the published definition below
                ctx.extra.setdefault("scales_not_written_as_literals", []).append(inst)
            else:
                if amt == "f64":
                    if u.scale_kind == "int":
                        want_v = Fraction(float(int(u.scale)))
                    else:
                        want_v = Fraction(fold.f64_of_text(u.scale_text))
                else:
                    want_v = u.scale
                ctx.ob("scale-generated", inst, gs[1] == want_v,
                       "generated scale constant %s (%s) differs from the literal written on this unit's attribute: %s -> %s"
                       % (gs[1], gs[3], u.scale_text, want_v), uw)
            if gs[1] <= 0:
                ctx.fail("scale-positive", inst, "scale %s is not positive" % gs[1], uw)
            # 6. reference unit has scale one
            if u.is_ref:
                ctx.ob("ref-scale-one", inst, gs[1] == 1 and u.scale in (1, None), "reference unit scale is %s" % gs[1], uw)
                ctx.ob("ref-unit", inst, q.ref_unit_lsu == var and q.ref_unit_hru == var,
                       "REF_UNIT constants are %s / %s, declared reference unit %s" % (q.ref_unit_lsu, q.ref_unit_hru, var), uw)
            # 5. definition
            if computed and ou is not None and ou.value is not None:
                dv = ou.value
                if ou.exact and oracle.terminating(dv):
                    want_g = Fraction(float(dv)) if amt == "f64" else dv
                    ctx.ob("definition", "%s/%s" % (qlabel, u.ident), gs[1] == want_g,
                           "generated scale %s (%.17g) but the published definition (%s) gives exactly %s"
                           % (gs[1], float(gs[1]), ou.expr, dv), uw)
                else:
                    err = abs(gs[1] - dv)
                    bound = TWO52 * Fraction(3, 2) if amt == "f64" else TWO52
                    ctx.ob("definition", "%s/%s" % (qlabel, u.ident), err <= bound * abs(dv),
                           "generated scale %.17g deviates from the published definition (%s = %.20g) by %.3g relative (bound %.3g)"
                           % (float(gs[1]), ou.expr, float(dv), float(err / abs(dv)), float(bound)), uw)
            elif computed:
                ctx.unverified.append("%s::%s: scale neither written as a literal nor known to the oracle" % (q.path, u.ident))
            elif ou is not None and ou.value is not None:
                lit = u.scale
                dv = ou.value
                if ou.exact and oracle.terminating(dv):
                    ctx.ob("definition", "%s/%s" % (qlabel, u.ident), lit == dv,
                           "declared scale %s = %s but the published definition (%s) gives exactly %s"
                           % (u.scale_text, lit, ou.expr, dv), uw)
                else:
                    err = abs(lit - dv)
                    ctx.ob("definition", "%s/%s" % (qlabel, u.ident), err <= TWO52 * abs(dv),
                           "declared scale %s deviates from the published definition (%s = %.20g) by %.3g relative (bound 2^-52 = %.3g)"
                           % (u.scale_text, ou.expr, float(dv), float(err / abs(dv)), float(TWO52)), uw)
            if u.prefix is not None and u.prefix in pexp and not computed:
                si_rows.append((u, pexp[u.prefix]))
        # 7. SI consistency (pairwise, exact)
        for i in range(len(si_rows)):
            for j in range(i + 1, len(si_rows)):
                (a, ea), (b, eb) = si_rows[i], si_rows[j]
                ok = a.scale / b.scale == Fraction(10) ** (ea - eb)
                ctx.ob("si-consistency", "%s/%s-%s" % (qlabel, a.ident, b.ident), ok,
                       "scale(%s)/scale(%s) = %s but prefixes %s/%s require 10^%d"
                       % (a.ident, b.ident, a.scale / b.scale, a.prefix, b.prefix, ea - eb),
                       "%s:%d" % (d.file, a.line))
        # 8. symbols pairwise distinct
        for s, ids in symbols.items():
            ctx.ob("symbol-unique", "%s/%s" % (qlabel, s), len(ids) == 1, "symbol %r used by %s" % (s, ids), where)
        counts["quantities"].add((crate, q.name))


def expected_prefix(ou, ref_pref, pexp):
    """Published prefix rule: a metric unit whose definition is 10^k times the
    reference unit carries the SI prefix with exponent k + exp(reference
    prefix), if such a prefix exists; nothing otherwise, and nothing at all
    when the reference unit has no prefix."""
    if ref_pref is None or not ou.metric or not ou.exact:
        return None
    v = ou.value
    k = 0
    while v > 1 and v % 10 == 0:
        v /= 10
        k += 1
    while v < 1 and (v * 10).denominator <= v.denominator and v != 0:
        nv = v * 10
        if nv > 1:
            break
        v = nv
        k -= 1
    if v != 1:
        return None
    e = k + pexp[ref_pref]
    for name, x in pexp.items():
        if x == e:
            return name
    return None


def run(ctx):
    orc = oracle.load_units()
    counts = {"units": set(), "quantities": set()}
    ctx.rule_text = ("one obligation per unit row x rule (symbol, name, prefix, literal->constant wiring, definition) "
                     "plus pairwise SI-prefix consistency per quantity; distinct = distinct obligation keys")
    for config in ("f64-all", "dec-all"):
        check_config(ctx, config, orc, counts)
    cat = {u for u in counts["units"] if u[0] == "quantities"}
    ast = {u for u in counts["units"] if u[0] == "astronomical_quantities"}
    ctx.floor("catalogue units", len(cat), 112)
    ctx.floor("astronomical units", len(ast), 27)
    ctx.floor("catalogue quantities", len({q for q in counts["quantities"] if q[0] == "quantities"}), 14)
    ctx.floor("astronomical quantities", len({q for q in counts["quantities"] if q[0] == "astronomical_quantities"}), 4)
    ctx.exhaustive = True
    ctx.trusted = ["rustc type checking and THIR construction", "Python float() and rustc literal parsing are both correctly rounded",
                   "fpdec Dec! macro expansion to Decimal::new_raw(coeff, n_frac) (its output constants are read, not trusted)",
                   "oracle/units.txt (independently written definitions)"]
    ctx.explanation = ("Static table comparison: every generated name/symbol/si_prefix/scale constant of every unit enum "
                       "(folded from the type-checked program in both amount back-ends) against the attribute row as written "
                       "and against an independent exact-rational definition table. Complete for the tables in the tree.")
    for u in orc.values():
        for x in u.units.values():
            if len(ctx.samples) < 6 and x.value is not None and x.value != 1:
                ctx.sample({"unit": "%s::%s" % (u.path, x.ident), "definition": x.expr, "value": str(x.value)})
