"""Per-type operator impls: lookup and single-expression form checks."""
from . import model, spec as S, term as T

OPFN = {"+": "add", "-": "sub", "*": "mul", "/": "div"}


def find_op(w, crate, op, self_key, rhs_key):
    return [(o, s, r, out, imp) for (o, s, r, out, imp) in w.U.op_impls(crate) if o == op and s == self_key and r == rhs_key]


def body_form(ctx, rule, inst, U, imp, fn, want, where=None, inline=(), record=None):
    """The impl method's body must be the single unconditional value `want`
    (exact tree modulo commutativity; R(..) parts as rational functions).
    `record`: the quantity type whose new / amount / unit may equally be spelled through its fields (a body that works
    on `self.amount` directly is then compared in the type's own record form)."""
    b = U.item_body(imp, fn)
    if b is None:
        ctx.fail(rule, inst, "no body for %s" % fn, imp["span"])
        return False
    ev = T.Evaluator(U, keep_tags=True, inline=inline)
    try:
        outs = ev.summarize(b)
    except T.Unsupported as x:
        ctx.fail(rule, inst, "unsupported construct: " + x.what, x.sp or b["span"])
        return False
    obs = "; ".join("[%s] %s %s" % (T.show_guard(g), k, T.show(T.canon(t))) for g, k, t in outs)
    ok = len(outs) == 1 and not outs[0][0] and outs[0][1] == "val" and S.match(T.canon(outs[0][2]), want) is None
    if not ok and len(outs) > 1:
        # several cases (a fast path): every case must produce the expected value; an equality with a constant that
        # guards a case may be used in it (x / 1 = x exactly)
        try:
            ok = not list(S.compare_cases([(g, k, T.canon(t)) for g, k, t in outs], [], lambda val: ("val", want)))
        except T.Unsupported:
            ok = False
    if not ok and not inline:
        # helper default methods of the library's traits (other than the ones the specifications name) looked through
        from . import generic as G
        try:
            outs2 = T.Evaluator(U, keep_tags=True, inline={"*"}, stop=G.STOP).summarize(b)
            if len(outs2) == 1 and not outs2[0][0] and outs2[0][1] == "val":
                ok = S.match(T.canon(outs2[0][2]), want) is None
            elif len(outs2) > 1:
                ok = not list(S.compare_cases([(g, k, T.canon(t)) for g, k, t in outs2], [], lambda val: ("val", want)))
            if not ok:
                outs = outs2 if outs2 else outs
        except T.Unsupported:
            pass
    if not ok and record is not None and len(outs) == 1 and not outs[0][0] and outs[0][1] == "val":
        from . import ovequiv
        try:
            view = ovequiv.TypeView(U, record)
            ok = S.match(T.canon(T.untag(view.concretise(T.canon(outs[0][2])))), T.canon(T.untag(view.concretise(S.strip_R(want))))) is None
        except (ovequiv.NotEquivalent, T.Unsupported):
            ok = False
    if not ok and record is not None:
        # everything expanded and specialised to the type (its record functions, its constant tables): e.g. a
        # single-unit type whose operators go through the generic defaults, whose unit guard is constantly true there
        from . import ovequiv
        try:
            view = ovequiv.TypeView(U, record)
            outs3 = T.Evaluator(U, keep_tags=False, inline={"*"}, stop=set()).summarize(b)
            cases = ovequiv._cases(view, outs3, {})
            w3 = T.canon(T.untag(view.concretise(S.strip_R(want))))
            ok = bool(cases) and not list(S.compare_cases(cases, [], lambda val: ("val", w3)))
        except (ovequiv.NotEquivalent, T.Unsupported):
            ok = False
    why = ""
    if not ok and want[0] == "app" and want[1].split("::")[0] in ("HasRefUnit", "Quantity") and len(b["params"]) == len(want[3]):
        # not the plain forwarding call: the body may still compute, case by case, what that default method computes
        # (e.g. a fast path in front of the call) — both are expanded to primitive operations and compared over the
        # truth table of their guards; equalities with constants that hold in a case may be used on both sides
        r = same_as_default(U, imp, b, want)
        if r is True:
            ok = True
        elif r is not None:
            why = " — and it is not shown to compute what that call computes (%s)" % r
    ctx.ob(rule, inst, ok, "body is %s, expected %s%s" % (obs, T.show(S.strip_R(want)), why), b["span"])
    return ok


def same_as_default(U, imp, b, want):
    from . import generic as G
    trait, name = want[1].split("::")
    db = U.get_body({"HasRefUnit": G.HRU, "Quantity": G.QTY}[trait] + name)
    if db is None:
        return None     # a required method (new / amount / unit): nothing to expand
    args = list(want[3])
    try:
        ev = T.Evaluator(U, keep_tags=True, inline={"*"}, stop=set())
        outs = [(g, k, T.canon(t)) for (g, k, t) in ev.summarize(b, args=args)]
        ev2 = T.Evaluator(U, keep_tags=True, inline={"*"}, stop=set())
        ev2.tysubst.append({"Self": imp["self_ty"]})
        wouts = [(g, k, T.canon(t)) for (g, k, t) in ev2.summarize(db, args=args)]
    except T.Unsupported as x:
        return "outside the analysed fragment: %s" % x.what
    watoms = T.guard_atoms(wouts)

    def spec(val):
        hit = [(k, t) for (g, k, t) in wouts if all(val(a) == p for a, p in g)]
        if len(hit) != 1:
            return None
        return (hit[0][0], hit[0][1] if hit[0][0] == "val" else None)
    try:
        probs = list(S.compare_cases(outs, watoms, spec))
    except T.Unsupported as x:
        return "outside the analysed fragment: %s" % x.what
    return True if not probs else probs[0][1][:300]


ASSIGN_OPS = {"core::ops::arith::AddAssign": ("core::ops::arith::Add", "add_assign"),
              "core::ops::arith::SubAssign": ("core::ops::arith::Sub", "sub_assign"),
              "core::ops::arith::MulAssign": ("core::ops::arith::Mul", "mul_assign"),
              "core::ops::arith::DivAssign": ("core::ops::arith::Div", "div_assign"),
              "core::ops::arith::RemAssign": ("core::ops::arith::Rem", "rem_assign")}


def assign_ops(ctx, rule, config, w, q):
    """Compound-assignment operators of a quantity type (the pinned tree has none; they are a natural later
    addition) must be defined THROUGH the checked operator — `*self = *self op rhs`, the callee resolved to the
    type's own impl of the binary operator with the same right-hand type — so that everything decided for `op`
    (conversion, the mixed-unit panic of quantities without reference unit, exactness) carries over.  Any other
    body is an unchecked second implementation of the operation and is reported."""
    from . import model
    U = w.U
    n = 0
    for c in w.crates:
        for imp in c.impls:
            tr = imp.get("trait")
            if tr not in ASSIGN_OPS or model.ty_key(imp["self_ty"]).lstrip("&") != q.path:
                continue
            op_trait, fn = ASSIGN_OPS[tr]
            rhs_ty = model.ty_key(imp["trait_args"][1]) if len(imp.get("trait_args", [])) > 1 else q.path
            inst = "%s/%s %s= %s" % (config, q.path, op_trait.rsplit("::", 1)[1], rhs_ty)
            b = U.item_body(imp, fn)
            ok, why = False, "no body"
            if b is not None:
                e = b["value"]
                while e is not None and e["k"] == "block":
                    if len(e["stmts"]) == 1 and e["expr"] is None and e["stmts"][0]["k"] == "expr":
                        e = e["stmts"][0]["e"]
                    elif not e["stmts"] and e["expr"] is not None:
                        e = e["expr"]
                    else:
                        break
                why = "body is not the single statement `*self = *self op rhs`"
                if e is not None and e["k"] == "assign" and e["l"]["k"] == "deref" and e["l"]["e"]["k"] == "var" and e["l"]["e"]["name"] == "self":
                    r = model.peel(e["r"])
                    if r is not None and r["k"] == "call" and r.get("fn", {}).get("trait") == op_trait and len(r["args"]) == 2:
                        a0, a1 = r["args"]
                        a0_ok = a0["k"] == "deref" and a0["e"]["k"] == "var" and a0["e"]["name"] == "self"
                        p1 = model.peel(a1)
                        rhs_name = b["params"][1]["pat"]["name"] if len(b["params"]) > 1 and b["params"][1].get("pat", {}).get("k") == "bind" else None
                        a1_ok = p1 is not None and p1["k"] == "var" and p1["name"] == rhs_name
                        res = r["fn"].get("resolved") or {}
                        tys = [model.ty_key(x) for x in r["fn"].get("args", [])]
                        target_ok = tys[:1] == [q.path] and (len(tys) < 2 or tys[1].lstrip("&") == rhs_ty.lstrip("&")) and res.get("impl_crate_local", True)
                        ok = a0_ok and a1_ok and target_ok
                        why = "assigns %s::%s(%s) — expected the type's own operator applied to (*self, rhs)" % (op_trait.rsplit("::", 1)[1], r["fn"]["name"], tys)
            if not ok and b is not None:
                # the other direction (the binary operator built on the compound assignment, or both written out):
                # the value left in `*self` must be what the checked binary operator returns, case by case
                sem = assign_equals_operator(w, q, imp, b, op_trait, rhs_ty)
                if sem is True:
                    ok = True
                else:
                    why += "; and the value it leaves in *self is not what `self %s rhs` returns (%s)" % (op_trait.rsplit("::", 1)[1].lower(), sem)
            ctx.ob(rule, inst, ok, "compound assignment is not defined through the checked operator: %s" % why, (b or imp)["span"], nontrivial=False)
            n += 1
    return n


def assign_equals_operator(w, q, imp, body, op_trait, rhs_ty):
    """True, or the reason why the final `*self` of the compound assignment is not shown equal to the result of the
    type's binary operator with the same right-hand type (both summarised with calls between the two looked through,
    compared in the type's record form over the truth table of their guards)."""
    from . import ovequiv
    U = w.U
    sym = {"core::ops::arith::Add": "+", "core::ops::arith::Sub": "-", "core::ops::arith::Mul": "*", "core::ops::arith::Div": "/",
           "core::ops::arith::Rem": "%"}.get(op_trait)
    cands = [(o, s_, r_, out, i2) for (o, s_, r_, out, i2) in U.op_impls(q.crate) if o == sym and s_ == q.path and r_ == rhs_ty]
    if len(cands) != 1:
        return "no unique `%s %s %s`" % (q.path, sym, rhs_ty)
    bimp = cands[0][4]
    bb = U.item_body(bimp, OPFN[sym])
    if bb is None or len(bb["params"]) != 2 or len(body["params"]) != 2:
        return "no comparable bodies"
    pj = body["params"][0].get("pat")
    if not pj or pj.get("k") != "bind":
        return "receiver pattern"
    a, r = S.P(0, "self"), S.P(1, "rhs")
    it_b = U.impl_item(bimp, OPFN[sym])
    inl = {it_b["path"] + "!"} if it_b else set()
    try:
        # (both sides fully expanded: a callee entered through a &mut receiver is always looked into, so the defaults
        # the operator forwards to must be looked into as well)
        ev1 = T.Evaluator(U, keep_tags=False, inline=inl | {"*"}, stop=set())
        env = {}
        for pp, t in zip(body["params"], (a, r)):
            if "pat" in pp:
                ev1.bind(pp["pat"], t, env, body)
        outs_a = []
        for (g, kind, t, e2) in ev1.ev(body["value"], T.State((), env), 0, body):
            outs_a.append((g, "val", e2[pj["id"]]) if kind in ("val", "ret") else (g, kind, t))
        outs_b = T.Evaluator(U, keep_tags=False, inline={"*"}, stop=set()).summarize(bb, args=[a, r])
        view = ovequiv.TypeView(U, q)
    except (T.Unsupported, ovequiv.NotEquivalent) as x:
        return "outside the analysed fragment: %s" % getattr(x, "what", x)
    norm = lambda outs: [(tuple((T.canon(view.concretise(T.canon(at))), p) for at, p in g), k,
                          T.canon(view.concretise(T.canon(t))) if k == "val" else None) for (g, k, t) in outs]
    try:
        # specialised to the type: guards its constant tables decide (the unit test of a one-unit type) are resolved
        na, nb = ovequiv._cases(view, outs_a, {}), ovequiv._cases(view, outs_b, {})
    except (T.Unsupported, ovequiv.NotEquivalent):
        na, nb = norm(outs_a), norm(outs_b)
    try:
        atoms = T.guard_atoms(na + nb)
        for asg in T.assignments(atoms):
            sa, sb = T.select(na, asg), T.select(nb, asg)
            if len(sa) != 1 or len(sb) != 1:
                return "%d / %d outcomes in a case" % (len(sa), len(sb))
            if sa[0][0] != sb[0][0]:
                return "the assignment %ss where the operator %ss" % (sa[0][0], sb[0][0])
            if sa[0][0] == "val" and S.match(sa[0][1], sb[0][1]) is not None:
                return "*self becomes %s, the operator returns %s" % (T.show(sa[0][1]), T.show(sb[0][1]))
    except T.Unsupported as x:
        return "outside the analysed fragment: %s" % x.what
    return True
