"""Per-type operator impls: lookup and single-expression form checks."""
from . import model, spec as S, term as T

OPFN = {"+": "add", "-": "sub", "*": "mul", "/": "div"}


def find_op(w, crate, op, self_key, rhs_key):
    return [(o, s, r, out, imp) for (o, s, r, out, imp) in w.U.op_impls(crate) if o == op and s == self_key and r == rhs_key]


def body_form(ctx, rule, inst, U, imp, fn, want, where=None, inline=()):
    """The impl method's body must be the single unconditional value `want`
    (exact tree modulo commutativity; R(..) parts as rational functions)."""
    b = U.item_body(imp, fn)
    if b is None:
        ctx.fail(rule, inst, "no body for %s" % fn, imp["span"])
        return False
    ev = T.Evaluator(U, keep_tags=True, inline=inline)
    try:
        outs = ev.summarize(b)
    except T.Unsupported as x:
        ctx.fail(rule, inst, "unsupported construct: " + x.what, x.sp or b["span"])
        return False
    obs = "; ".join("[%s] %s %s" % (T.show_guard(g), k, T.show(T.canon(t))) for g, k, t in outs)
    ok = len(outs) == 1 and not outs[0][0] and outs[0][1] == "val" and S.match(T.canon(outs[0][2]), want) is None
    ctx.ob(rule, inst, ok, "body is %s, expected %s" % (obs, T.show(S.strip_R(want))), b["span"])
    return ok


ASSIGN_OPS = {"core::ops::arith::AddAssign": ("core::ops::arith::Add", "add_assign"),
              "core::ops::arith::SubAssign": ("core::ops::arith::Sub", "sub_assign"),
              "core::ops::arith::MulAssign": ("core::ops::arith::Mul", "mul_assign"),
              "core::ops::arith::DivAssign": ("core::ops::arith::Div", "div_assign"),
              "core::ops::arith::RemAssign": ("core::ops::arith::Rem", "rem_assign")}


def assign_ops(ctx, rule, config, w, q):
    """Compound-assignment operators of a quantity type (the pinned tree has none; they are a natural later
    addition) must be defined THROUGH the checked operator — `*self = *self op rhs`, the callee resolved to the
    type's own impl of the binary operator with the same right-hand type — so that everything decided for `op`
    (conversion, the mixed-unit panic of quantities without reference unit, exactness) carries over.  Any other
    body is an unchecked second implementation of the operation and is reported."""
    from . import model
    U = w.U
    n = 0
    for c in w.crates:
        for imp in c.impls:
            tr = imp.get("trait")
            if tr not in ASSIGN_OPS or model.ty_key(imp["self_ty"]).lstrip("&") != q.path:
                continue
            op_trait, fn = ASSIGN_OPS[tr]
            rhs_ty = model.ty_key(imp["trait_args"][1]) if len(imp.get("trait_args", [])) > 1 else q.path
            inst = "%s/%s %s= %s" % (config, q.path, op_trait.rsplit("::", 1)[1], rhs_ty)
            b = U.item_body(imp, fn)
            ok, why = False, "no body"
            if b is not None:
                e = b["value"]
                while e is not None and e["k"] == "block":
                    if len(e["stmts"]) == 1 and e["expr"] is None and e["stmts"][0]["k"] == "expr":
                        e = e["stmts"][0]["e"]
                    elif not e["stmts"] and e["expr"] is not None:
                        e = e["expr"]
                    else:
                        break
                why = "body is not the single statement `*self = *self op rhs`"
                if e is not None and e["k"] == "assign" and e["l"]["k"] == "deref" and e["l"]["e"]["k"] == "var" and e["l"]["e"]["name"] == "self":
                    r = model.peel(e["r"])
                    if r is not None and r["k"] == "call" and r.get("fn", {}).get("trait") == op_trait and len(r["args"]) == 2:
                        a0, a1 = r["args"]
                        a0_ok = a0["k"] == "deref" and a0["e"]["k"] == "var" and a0["e"]["name"] == "self"
                        p1 = model.peel(a1)
                        rhs_name = b["params"][1]["pat"]["name"] if len(b["params"]) > 1 and b["params"][1].get("pat", {}).get("k") == "bind" else None
                        a1_ok = p1 is not None and p1["k"] == "var" and p1["name"] == rhs_name
                        res = r["fn"].get("resolved") or {}
                        tys = [model.ty_key(x) for x in r["fn"].get("args", [])]
                        target_ok = tys[:1] == [q.path] and (len(tys) < 2 or tys[1].lstrip("&") == rhs_ty.lstrip("&")) and res.get("impl_crate_local", True)
                        ok = a0_ok and a1_ok and target_ok
                        why = "assigns %s::%s(%s) — expected the type's own operator applied to (*self, rhs)" % (op_trait.rsplit("::", 1)[1], r["fn"]["name"], tys)
            ctx.ob(rule, inst, ok, "compound assignment is not defined through the checked operator: %s" % why, (b or imp)["span"], nontrivial=False)
            n += 1
    return n
