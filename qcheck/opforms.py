"""Per-type operator impls: lookup and single-expression form checks."""
from . import model, spec as S, term as T

OPFN = {"+": "add", "-": "sub", "*": "mul", "/": "div"}


def find_op(w, crate, op, self_key, rhs_key):
    return [(o, s, r, out, imp) for (o, s, r, out, imp) in w.U.op_impls(crate) if o == op and s == self_key and r == rhs_key]


def body_form(ctx, rule, inst, U, imp, fn, want, where=None, inline=()):
    """The impl method's body must be the single unconditional value `want`
    (exact tree modulo commutativity; R(..) parts as rational functions)."""
    b = U.item_body(imp, fn)
    if b is None:
        ctx.fail(rule, inst, "no body for %s" % fn, imp["span"])
        return False
    ev = T.Evaluator(U, keep_tags=True, inline=inline)
    try:
        outs = ev.summarize(b)
    except T.Unsupported as x:
        ctx.fail(rule, inst, "unsupported construct: " + x.what, x.sp or b["span"])
        return False
    obs = "; ".join("[%s] %s %s" % (T.show_guard(g), k, T.show(T.canon(t))) for g, k, t in outs)
    ok = len(outs) == 1 and not outs[0][0] and outs[0][1] == "val" and S.match(T.canon(outs[0][2]), want) is None
    ctx.ob(rule, inst, ok, "body is %s, expected %s" % (obs, T.show(S.strip_R(want))), b["span"])
    return ok
