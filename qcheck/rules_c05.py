"""C05 — derived results use the natural or the best-fitting unit."""
from fractions import Fraction

from . import conc, generic as G, model, spec as S, term as T, ws
from .model import ModelError


def amount_only_compared(outs, ev, U):
    """The selection may touch the amount only through comparisons; it may be
    divided only in the final `new(amount / scale(u), u)`."""
    # structural: in every guard atom and every closure predicate the amount
    # parameter occurs only as a direct operand of <, <=, ==
    bad = []

    def walk(t, in_cmp, where):
        if not isinstance(t, tuple):
            return
        if t[0] == "p" and t[1] == 0:
            if not in_cmp:
                bad.append(where)
            return
        if t[0] == "closure":
            u = T.P(100, "u")
            for (g, k, x) in ev.summarize_closure(t, [u]):
                for a, _p in g:
                    walk(a, False, "closure guard")
                walk(x, False, "closure " + t[1].split("::")[-1])
            for _vid, cap in t[2]:
                if cap == T.P(0, "amount"):
                    continue
                walk(cap, False, "closure capture")
            return
        if t[0] in ("<", "<=", "=="):
            for x in t[1:]:
                walk(x, True, where)
            return
        if t[0] == "app":
            for x in t[3]:
                walk(x, False, where)
            return
        for x in t[1:]:
            if isinstance(x, tuple):
                walk(x, False, where)
    for (g, k, t) in outs:
        for a, _p in g:
            walk(a, False, "guard")
        if k == "val" and t[0] == "app" and t[1] == "Quantity::new":
            walk(t[3][1], False, "unit slot")
    return bad


def expected_scale(q, x):
    rows = [(q.tables["scale"][v][1], q.tables["si_prefix"][v] != ("none",)) for v in q.variants_const]
    ref_has_prefix = q.tables["si_prefix"][q.ref_unit_hru] != ("none",)
    elig = [s for (s, p) in rows if (p or not ref_has_prefix)]
    below = [s for s in elig if s <= x]
    return max(below) if below else min(elig)


def cells(q):
    ss = sorted({q.tables["scale"][v][1] for v in q.variants_const})
    pts = [("negative", Fraction(-1)), ("zero", Fraction(0)), ("below the smallest scale", ss[0] / 2)]
    for i, s in enumerate(ss):
        pts.append(("exactly %s" % s, s))
        if i + 1 < len(ss):
            pts.append(("between %s and %s" % (s, ss[i + 1]), (s + ss[i + 1]) / 2))
    pts.append(("above the largest scale", ss[-1] * 2))
    return pts


def run_config(ctx, config, counts):
    w = ws.load(config)
    U = w.U
    ctx.configs.append(config)
    outs, b, ev = G.summarize(U, G.HRU + "_fit", {"*"})
    bad = amount_only_compared(outs, ev, U)
    ctx.ob("amount-only-compared", config, not bad,
           "the selection uses the amount outside comparisons (%s): the finite order partition would not be complete" % bad, b["span"])
    ctx.sample({"function": G.HRU + "_fit", "summary": "; ".join("[%s] %s" % (T.show_guard(g), T.show(t)) for g, k, t in outs)[:900]})
    # natural unit lookup form is C09's lookup-form; here: evaluation on the tables
    louts0, lb0, lev0 = G.summarize(U, G.HRU + "unit_from_scale", {"*"}, stop=G.STOP_LOOKUP)
    outs0, b0, ev0 = outs, b, ev
    prims = set()
    for q in w.qtypes:
        if q.kind not in ("ref", "dimless") or "scale" not in q.tables:
            continue
        inst0 = "%s/%s" % (config, q.path)
        # a type that overrides the lookup or the selection is evaluated with its own bodies
        tov = G.type_overrides(U, q)
        ov = {k: v for k, v in tov.items() if k in ("LinearScaledUnit::from_scale", "HasRefUnit::unit_from_scale")}
        try:
            if ov:
                louts, lb, lev = G.summarize(U, G.HRU + "unit_from_scale", {"*"}, stop=G.STOP_LOOKUP, overrides=ov)
            else:
                louts, lb, lev = louts0, lb0, lev0
            if "HasRefUnit::_fit" in tov and q.kind == "ref":
                outs, b, ev = G.summarize(U, G.HRU + "_fit", {"*"}, overrides=tov)
                bad = amount_only_compared(outs, ev, U)
                ctx.ob("amount-only-compared", inst0, not bad,
                       "the selection of %s uses the amount outside comparisons (%s)" % (q.path, bad), b["span"])
            else:
                outs, b, ev = outs0, b0, ev0
        except ModelError as e:
            ctx.fail("override", inst0, "%s overrides the lookup / selection with a body outside the analysed fragment: %s" % (q.path, e.what), e.where or q.span)
            continue
        c = conc.Conc(U, q, ev)
        # reference x reference -> reference unit: lookup(1) is the reference unit
        try:
            r = conc.Conc(U, q, lev).pick(louts, {0: Fraction(1)})
            ok = r is not None and r[1] == q.ref_unit_hru
            ctx.ob("ref-times-ref", inst0, ok, "unit_from_scale(1) selects %s, reference unit is %s" % (r, q.ref_unit_hru), q.span)
        except (conc.CannotEvaluate, conc.ModelPanic, T.Unsupported) as x:
            ctx.fail("ref-times-ref", inst0, "cannot evaluate the lookup model: %s" % x, lb["span"])
        # natural unit: for every declared scale the lookup returns a unit with that scale
        for s in sorted({q.tables["scale"][v][1] for v in q.variants_const}):
            try:
                r = conc.Conc(U, q, lev).pick(louts, {0: s})
                ok = r is not None and q.tables["scale"][r[1]][1] == s
            except (conc.CannotEvaluate, conc.ModelPanic, T.Unsupported) as x:
                ok, r = False, str(x)
            ctx.ob("natural-unit", "%s/scale=%s" % (inst0, s), ok, "unit_from_scale(%s) yields %s" % (s, r), q.span)
        # ... and for a combined scale that is no unit's scale it returns nothing (otherwise the product of the
        # amounts would be stored with a unit of a different scale instead of being fitted)
        declared = {q.tables["scale"][v][1] for v in q.variants_const}
        for (cname, x) in cells(q):
            if x in declared:
                continue
            try:
                r = conc.Conc(U, q, lev).pick(louts, {0: x})
                ok = r is None
            except (conc.CannotEvaluate, conc.ModelPanic, T.Unsupported) as e:
                ok, r = False, str(e)
            ctx.ob("natural-unit-miss", "%s/%s" % (inst0, cname), ok,
                   "unit_from_scale(%s) on %s yields %s although no unit has that scale" % (x, q.path, r), lb["span"], nontrivial=False)
        if q.kind != "ref":
            counts["types"].add((config, q.path))
            continue
        # best fit: every cell of the order partition
        for (cname, x) in cells(q):
            inst = "%s/%s" % (inst0, cname)
            try:
                res = c.pick(outs, {0: x})
            except conc.ModelPanic as p:
                ctx.fail("best-fit", inst, "the selection model panics for a magnitude %s: %s" % (cname, p), b["span"])
                continue
            except (conc.CannotEvaluate, T.Unsupported) as e:
                ctx.fail("best-fit", inst, "unsupported construct in the selection model: %s" % e, b["span"])
                continue
            if not (isinstance(res, tuple) and res[0] == "qty"):
                ctx.fail("best-fit", inst, "selection does not produce a quantity", b["span"])
                continue
            unit = res[2]
            got = q.tables["scale"][unit][1]
            want = expected_scale(q, x)
            counts["cells"] += 1
            ctx.ob("best-fit", inst, got == want,
                   "for a reference-unit magnitude %s (%s) _fit selects %s (scale %s); specified: the largest eligible unit whose scale does not "
                   "exceed the magnitude, else the smallest eligible unit: scale %s" % (x, cname, unit, got, want), b["span"])
            ctx.ob("fit-unit-of-result", inst, unit in q.variants, "selected unit is not a unit of the result type", b["span"], nontrivial=False)
        prims |= c.used_primitives
        counts["types"].add((config, q.path))
    ctx.extra.setdefault("contracted_primitives", sorted(prims))


def run(ctx):
    counts = {"cells": 0, "types": set()}
    for config in ("f64-all", "dec-all") + (("f64-nostd", "dec-nostd") if ctx.tier == "thorough" else ()):
        run_config(ctx, config, counts)
    ctx.floor("best-fit cells evaluated", counts["cells"], 600)
    ctx.floor("reference-unit result types (incl. the dimensionless amount)", len(counts["types"]), 23 + 19 + 2)
    ctx.exhaustive = True
    ctx.rule_text = ("per reference-unit type and configuration: every cell of the order partition induced by its scale table (below / on / between / above "
                     "every distinct scale, zero, negative) x the extracted selection model vs the specified selection; lookup(1) = reference unit; lookup(s) for every declared scale")
    ctx.trusted = ["std contracts: Iterator::filter/next/last/find, Option::unwrap", "the form of the derived operators (natural-unit branch, key = sigma) is C04; the lookup form is C09"]
    ctx.explanation = ("_fit touches the amount only through comparisons with scale constants (checked structurally), so its behaviour is a function on a finite partition of "
                       "the real line. The selection model (iterator chain + closure predicates) is extracted from the THIR summary and evaluated on every cell of every "
                       "result type's table in both back-ends; the selected unit's scale must equal the specified one. No code of the repository is run.")
