"""C19 — every feature combination builds and is self-contained."""
import hashlib
import itertools
import json
import os
import re
import subprocess
import time
import tomllib
from concurrent.futures import ThreadPoolExecutor

from . import decls as D, facts, model, rules_c06, ws
from .model import ModelError

QF = facts.ALL_Q


def lattice(tier):
    sel = [[f] for f in QF] + [list(QF), []]
    corners = list(itertools.product((True, False), (False, True), (False, True)))  # std, fpdec, serde
    cfgs = []
    for s in sel:
        for (std, dec, ser) in corners:
            is_default_corner = std and not dec and not ser
            if tier != "thorough" and not is_default_corner and not (len(s) == len(QF) or not s):
                continue
            feats = list(s) + (["std"] if std else []) + (["fpdec"] if dec else []) + (["serde"] if ser else [])
            name = ("all" if len(s) == len(QF) else (s[0] if s else "none")) + "|" + ("std" if std else "nostd") + "|" + ("dec" if dec else "f64") + "|" + ("serde" if ser else "noserde")
            cfgs.append((name, feats))
    return cfgs


def run_lattice(ctx):
    cfgs = lattice(ctx.tier)
    nworkers = 4
    env = dict(os.environ)
    env["CARGO_NET_OFFLINE"] = "true"

    def build(args):
        i, (name, feats) = args
        tgt = os.path.join(facts.CACHE, "tgt", "lattice-%d" % (i % nworkers))
        cmd = ["cargo", "check", "--offline", "-q", "--lib", "--no-default-features", "--message-format=short"]
        if feats:
            cmd += ["--features", " ".join(feats)]
        e = dict(env)
        e["CARGO_TARGET_DIR"] = tgt
        e["RUSTFLAGS"] = "-Awarnings"
        t0 = time.time()
        p = subprocess.run(cmd, cwd=facts.REPO, env=e, stdout=subprocess.PIPE, stderr=subprocess.STDOUT, text=True)
        if p.returncode != 0:
            # a genuine type error reproduces; an environmental hiccup (another process cleaning or locking the shared
            # target directory) does not: judge the second verdict, built in a private target directory
            import tempfile
            import shutil
            priv = tempfile.mkdtemp(prefix="lattice-retry.", dir=os.path.join(facts.CACHE, "tgt"))
            try:
                e["CARGO_TARGET_DIR"] = priv
                p = subprocess.run(cmd, cwd=facts.REPO, env=e, stdout=subprocess.PIPE, stderr=subprocess.STDOUT, text=True)
            finally:
                shutil.rmtree(priv, ignore_errors=True)
        return name, feats, p.returncode, p.stdout, time.time() - t0
    # one worker per target dir (cargo locks the target dir): shard by index
    shards = [[] for _ in range(nworkers)]
    for i, c in enumerate(cfgs):
        shards[i % nworkers].append((i, c))
    results = []

    def work(shard):
        return [build(x) for x in shard]
    with ThreadPoolExecutor(max_workers=nworkers) as ex:
        for r in ex.map(work, shards):
            results += r
    for name, feats, rc, out, dt in results:
        tail = "\n".join(l for l in out.strip().splitlines() if "error" in l)[:600]
        ctx.ob("type-check", name, rc == 0, "`cargo check --lib --no-default-features --features \"%s\"` fails:\n%s" % (" ".join(feats), tail), "Cargo.toml / src/lib.rs")
    ctx.extra["lattice_configurations"] = len(results)
    ctx.extra["lattice_wall_s"] = round(sum(r[4] for r in results), 1)
    return len(results)


def closure(feats, f, seen=None):
    seen = seen if seen is not None else set()
    if f in seen:
        return seen
    seen.add(f)
    for d in feats.get(f, []):
        if not d.startswith("dep:") and "/" not in d:
            closure(feats, d, seen)
    return seen


def static_graph(ctx):
    with open(os.path.join(facts.REPO, "Cargo.toml"), "rb") as fh:
        feats = tomllib.load(fh).get("features", {})
    for f in QF:
        ctx.ob("feature-declared", f, f in feats, "feature %s missing from [features]" % f, "Cargo.toml")
    # an optional dependency (and with it a back-end / representation switch) may only be
    # activated by its namesake feature: `serde = [.., "fpdec/x"]` would silently turn on
    # the decimal back-end whenever serde is enabled (weak edges `dep?/x` are fine)
    with open(os.path.join(facts.REPO, "Cargo.toml"), "rb") as fh:
        deps = tomllib.load(fh).get("dependencies", {})
    optional = {d for d, v in deps.items() if isinstance(v, dict) and v.get("optional")}
    for f, items in feats.items():
        for it in items:
            dep = None
            if it.startswith("dep:"):
                dep = it[4:]
            elif "/" in it and "?/" not in it:
                dep = it.split("/")[0]
            elif it in optional and it not in feats:
                dep = it
            if dep in optional:
                ctx.ob("dependency-activation", "%s->%s" % (f, it), f == dep,
                       "feature `%s` activates the optional dependency `%s` (entry %r): enabling `%s` would switch on `%s` and change the amount type / "
                       "results of existing operations" % (f, dep, it, f, dep), "Cargo.toml [features] %s" % f)
    for f in QF + ["std", "default"]:
        bad = [d for d in optional if d in closure(feats, f) and d != f]
        ctx.ob("dependency-activation", "closure/%s" % f, not bad, "feature %s transitively enables optional dependencies %s" % (f, bad), "Cargo.toml", nontrivial=False)
    _ds, raw = D.all_decls()
    files = {os.path.relpath(f["file"], facts.REPO): f for f in raw["files"]}
    lib = files.get("src/lib.rs")
    if lib is None:
        raise ModelError("anchor", "src/lib.rs not scanned")
    # module gates
    gates = {m["ident"]: m for m in lib["mods"] if not m["ctx"]}
    for f in QF:
        m = gates.get(f)
        ok = m is not None and m["cfg"] is not None and re.sub(r"\s+", "", m["cfg"]) == 'feature="%s"' % f and m["vis"] == "pub"
        ctx.ob("module-gate", f, ok, "module %s is gated by %s (expected pub mod under cfg(feature = \"%s\"))" % (f, m and m["cfg"], f), "src/lib.rs:%s" % (m and m["line"]))
    # module-use graph within feature closure; no std:: in catalogue modules
    for f in QF:
        mf = files.get("src/%s.rs" % f)
        if mf is None:
            ctx.fail("module-file", f, "src/%s.rs not found" % f, "src/lib.rs")
            continue
        allowed = closure(feats, f)
        used = set()
        std_uses = []
        for p in mf["paths"]:
            if any("test" in c for c in p.get("cfg_ctx", [])) or (p.get("cfg") and "test" in p["cfg"]):
                continue
            segs = p["path"].split("::")
            if segs[0] == "crate" and len(segs) > 1 and segs[1] in QF:
                used.add(segs[1])
            if segs[0] == "std":
                std_uses.append("%s:%d %s" % (f, p["line"], p["path"]))
        missing = sorted(used - allowed)
        ctx.ob("feature-closure", f, not missing,
               "module %s uses crate::%s but feature %s does not (transitively) enable %s: the feature alone would not build" % (f, missing, f, missing), "Cargo.toml [features] %s" % f)
        ctx.ob("no-std-paths", f, not std_uses, "catalogue module names std:: (breaks no_std): %s" % std_uses, "src/%s.rs" % f)
        # declared derivation operands are within the closure
    # cfg(feature = ..) sites: enumerate and classify
    known_kinds = []
    for rel, fj in files.items():
        if not rel.startswith("src/"):
            continue
        for c in fj["cfgs"]:
            tok = re.sub(r"\s+", "", c["tokens"])
            if "feature=" not in tok:
                continue
            kind = None
            if c["on"].startswith("mod ") and c["on"][4:] in QF and tok == 'feature="%s"' % c["on"][4:]:
                kind = "module gate"
            elif c["on"].startswith("mod amnt_") or (c["on"] == "use" and "fpdec" in tok and rel == "src/lib.rs"):
                kind = "AmountT selection"
            elif c["on"] == "crate" and c["attr"] == "cfg_attr" and tok == 'not(feature="std"),no_std':
                kind = "no_std"
            elif set(re.findall(r'feature="([^"]*)"', tok)) == {"fpdec"}:
                # code that exists only with / only without the decimal back-end: `fpdec` replaces the amount type, so
                # no operation on f64 amounts "was already available" on the other side; what the code does in each
                # back-end is decided by the other properties on the f64 and the decimal configurations
                kind = "amount back-end variant (fpdec only)"
            elif c["on"] == "use" and rel == "src/prelude.rs" and tok == 'feature="fpdec"':
                kind = "prelude Dec export"
            elif any("test" in x for x in c["ctx"]) or c["ctx"] and c["ctx"][0] == "mod tests":
                kind = "inside test module"
            elif c["attr"] == "cfg" and "not(" not in tok and ITEM_LEVEL.match(c["on"]) and \
                    set(re.findall(r'feature="([^"]*)"', tok)) <= set(facts.f64_all_features().split()) | {"fpdec", "serde"}:
                # a whole item that exists only WITH a feature (a positive predicate): it adds API and cannot change an
                # existing body; that the existing bodies are unchanged with the feature on is what the additivity rule
                # decides (the feature is part of the "all" configuration by construction)
                kind = "additive item gate"
            ctx.ob("cfg-site", "%s:%s:%s" % (rel, c["on"], tok), kind is not None,
                   "unexpected cfg(feature) site `%s` on %s in %s: features could change existing behaviour here" % (c["tokens"], c["on"], "/".join(c["ctx"])),
                   "%s:%d" % (rel, c["line"]), nontrivial=False)
            known_kinds.append(kind)
    ctx.extra["cfg_feature_sites"] = len(known_kinds)


ITEM_LEVEL = re.compile(r"^(const |fn |static |mod |struct |enum |type |trait |use$|impl$|macro$)")
STRIP = ("sp", "span", "x", "index", "impl_index", "expn", "in_impl")


def fingerprint(b):
    def clean(o):
        if isinstance(o, dict):
            return {k: clean(v) for k, v in o.items() if k not in STRIP}
        if isinstance(o, list):
            return [clean(v) for v in o]
        return o
    return hashlib.sha256(json.dumps(clean({"params": b.get("params"), "value": b.get("value"), "ret": b.get("ret_ty")}), sort_keys=True).encode()).hexdigest()


def additivity(ctx, small, big):
    """Every body present in both configurations is identical (A11)."""
    a = facts.factset(small).get("quantities")
    b = facts.factset(big).get("quantities")
    ctx.configs += [small]
    n = 0
    diffs = 0
    for p, body in a.bodies.items():
        if "::tests::" in p:
            continue
        other = b.bodies.get(p)
        if other is None:
            ctx.fail("additivity-present", "%s<%s/%s" % (small, big, p), "item exists in configuration %s but not in %s" % (small, big), body["span"])
            continue
        n += 1
        same = fingerprint(body) == fingerprint(other)
        if not same:
            diffs += 1
        ctx.ob("additivity", "%s<%s/%s" % (small, big, p), same,
               "body of %s differs between configurations %s and %s: enabling more features changes an existing operation" % (p, small, big), body["span"], nontrivial=False)
    return n


def exposes(ctx, f):
    """single-<f>: the impl table contains the feature's quantity and the closure of its declaration."""
    cfg = "single-" + f
    w = ws.load(cfg)
    ctx.configs.append(cfg)
    crate = w.fs.get("quantities")
    qs = [q for q in w.qtypes if q.crate is crate and q.module == "quantities::" + f]
    ctx.ob("exposes-quantity", f, len(qs) == 1, "configuration %s exposes %d quantity types in module %s" % (cfg, len(qs), f), "src/%s.rs" % f)
    if len(qs) != 1:
        return
    q = qs[0]
    d = w.decl_of.get(q.path)
    if d is not None and d.derived is not None:
        (A, op, B) = d.derived
        scope = q.path.rsplit("::", 1)[0]
        Ap, Bp = rules_c06.resolve_ident(A, scope, w.qtypes, "f64"), rules_c06.resolve_ident(B, scope, w.qtypes, "f64")
        have = {(o, s, r, out) for (o, s, r, out, imp) in w.U.op_impls(crate)}
        want = rules_c06.with_ref_forms(rules_c06.derived_closure(q.path, Ap, op, Bp)) if Ap and Bp else set()
        missing = sorted(want - have)
        ctx.ob("exposes-operators", f, Ap is not None and Bp is not None and not missing,
               "configuration %s lacks derivation operators %s" % (cfg, missing[:4]), "src/%s.rs" % f)


def run(ctx):
    n = run_lattice(ctx)
    ctx.floor("lattice configurations built", n, 128 if ctx.tier == "thorough" else 30)
    static_graph(ctx)
    ctx.configs += ["f64-all", "dec-all"]
    k = additivity(ctx, "none", "f64-all")
    ctx.floor("bodies shared by `none` and `f64-all`", k, 100)
    # enabling serde on top of the full f64 configuration must not change any existing body
    # (in particular not the amount type)
    k3 = additivity(ctx, "f64-all", "f64-serde")
    ctx.floor("bodies shared by `f64-all` and `f64-serde`", k3, 700)
    a_feats = set(facts.factset("f64-serde").get("quantities").features)
    ctx.ob("serde-does-not-enable-fpdec", "f64-serde", "fpdec" not in a_feats,
           "building with `--features \"doc serde\"` has cfg(feature = \"fpdec\") on: %s" % sorted(a_feats), "Cargo.toml")
    if ctx.tier == "thorough":
        k2 = additivity(ctx, "dec-none", "dec-all")
        # std vs no_std: the same bodies
        additivity(ctx, "f64-nostd", "f64-all")
        additivity(ctx, "dec-nostd", "dec-noserde")
        for f in QF:
            additivity(ctx, "single-" + f, "f64-all")
            exposes(ctx, f)
    ctx.exhaustive = ctx.tier == "thorough"
    ctx.rule_text = "rustc type-check verdict per configuration of the lattice (quick: 30 corners, thorough: all 128); feature closure ⊇ module-use graph per feature; cfg(feature) site classification; body identity across configurations"
    ctx.trusted = ["cargo feature resolution", "rustc type checking"]
    ctx.explanation = ("The finite configuration lattice is type-checked (compiler verdict, nothing is run); independently of which corners are sampled, every catalogue module's "
                       "crate::<module> uses lie inside the transitive closure of its feature, every module gate is its own feature, no catalogue module names std::, all cfg(feature) "
                       "sites are of the enumerated kinds, and every function body shared by a small and the full configuration is identical (features are additive).")
