"""Forward error analysis of a conversion term in the decimal back-end.

A conversion term is a tree over the symbolic amount, the two unit scales
(table constants, exact decimals) and `*`, `/`.  fpdec rounds every product
and quotient to at most 18 fractional digits (exact when representable), so
for a concrete unit pair every sub-tree that does not contain the amount is a
*number* we can fold exactly as the library would compute it, and the tree is
`amount * c_act (+ absolute rounding error)` where the specified value is
`amount * c_true`.  The analysis returns the relative error of the effective
coefficient and the accumulated absolute error of the roundings applied to
amount-carrying intermediates.  Nothing of the repository is executed."""
from fractions import Fraction

from . import term as T
from .magn import round18

HALF = Fraction(5, 10 ** 19)


class Unsupported(Exception):
    pass


def analyse(t, consts, amounts):
    """consts: {canon term: Fraction}, amounts: set of canon terms (symbolic).
    -> ('c', act, true) | ('l', coef_act, coef_true, abs_err)"""
    t = T.canon(t)
    if t in consts:
        return ("c", consts[t], consts[t])
    if t in amounts:
        return ("l", Fraction(1), Fraction(1), Fraction(0))
    h = t[0]
    if h == "num":
        return ("c", Fraction(t[1]), Fraction(t[1]))
    if h == "neg":
        x = analyse(t[1], consts, amounts)
        return (x[0], -x[1], -x[2]) + tuple(x[3:])
    if h in ("*", "/"):
        a = analyse(t[1], consts, amounts)
        b = analyse(t[2], consts, amounts)
        if a[0] == "c" and b[0] == "c":
            if h == "/" and (b[1] == 0 or b[2] == 0):
                raise Unsupported("division by a zero constant")
            act = a[1] * b[1] if h == "*" else a[1] / b[1]
            tru = a[2] * b[2] if h == "*" else a[2] / b[2]
            return ("c", round18(act), tru)
        if h == "*" and a[0] == "c" and b[0] == "l":
            a, b = b, a
        if a[0] == "l" and b[0] == "c":
            if b[1] == 0 or b[2] == 0:
                raise Unsupported("zero coefficient")
            if h == "*":
                return ("l", a[1] * b[1], a[2] * b[2], a[3] * abs(b[1]) + HALF)
            return ("l", a[1] / b[1], a[2] / b[2], a[3] / abs(b[1]) + HALF)
        raise Unsupported("non-linear use of the amount: " + T.show(t)[:80])
    raise Unsupported("construct outside {*, /, scale constants, amount}: " + T.show(t)[:80])


COEF_TOL = Fraction(1, 10 ** 18)
ABS_TOL = Fraction(1, 10 ** 18)


def guard_value(atom, consts, units):
    """Truth of a guard atom for a concrete unit pair: order / equality of
    scale constants, or equality of the two unit terms (units: {canon: name})."""
    a = T.canon(atom)
    if a[0] in ("==", "<", "<="):
        x, y = T.canon(a[1]), T.canon(a[2])
        if x in consts and y in consts:
            return {"==": consts[x] == consts[y], "<": consts[x] < consts[y], "<=": consts[x] <= consts[y]}[a[0]]
        if a[0] == "==" and x in units and y in units:
            return units[x] == units[y]
    raise Unsupported("guard atom not decided by the unit pair: " + T.show(a)[:80])


def select(outs, consts, units):
    hit = [(k, t) for (g, k, t) in outs if all(guard_value(a, consts, units) == p for a, p in g)]
    if len(hit) != 1:
        raise Unsupported("%d outcomes apply to the unit pair" % len(hit))
    return hit[0]
