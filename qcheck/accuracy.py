"""Forward error analysis of a conversion term in the decimal back-end.

A conversion term is a tree over the symbolic amount, the two unit scales
(table constants, exact decimals) and `*`, `/`.  fpdec rounds every product
and quotient to at most 18 fractional digits (exact when representable), so
for a concrete unit pair every sub-tree that does not contain the amount is a
*number* we can fold exactly as the library would compute it, and the tree is
`amount * c_act (+ absolute rounding error)` where the specified value is
`amount * c_true`.  The analysis returns the relative error of the effective
coefficient and the accumulated absolute error of the roundings applied to
amount-carrying intermediates.  Nothing of the repository is executed."""
from fractions import Fraction

from . import term as T
from .magn import round18

HALF = Fraction(5, 10 ** 19)


class Unsupported(Exception):
    pass


class Overflow(Exception):
    """an amount-free sub-term is not representable in the decimal type: the operation panics for every amount"""


def chk(v, what):
    from .magn import THRESH
    if abs(v) >= THRESH:
        raise Overflow("%s = %.3g is not representable in the decimal amount type (fpdec: 'Internal representation exceeded')" % (what, float(v)))
    return v


def analyse(t, consts, amounts):
    """consts: {canon term: Fraction}, amounts: set of canon terms (symbolic).
    -> ('c', act, true) | ('l', coef_act, coef_true, abs_err)"""
    t = T.canon(t)
    if t in consts:
        return ("c", consts[t], consts[t])
    if t in amounts:
        return ("l", Fraction(1), Fraction(1), Fraction(0))
    h = t[0]
    if h == "num":
        return ("c", Fraction(t[1]), Fraction(t[1]))
    if h == "neg":
        x = analyse(t[1], consts, amounts)
        return (x[0], -x[1], -x[2]) + tuple(x[3:])
    if h in ("*", "/"):
        a = analyse(t[1], consts, amounts)
        b = analyse(t[2], consts, amounts)
        if a[0] == "c" and b[0] == "c":
            if h == "/" and (b[1] == 0 or b[2] == 0):
                raise Unsupported("division by a zero constant")
            act = a[1] * b[1] if h == "*" else a[1] / b[1]
            tru = a[2] * b[2] if h == "*" else a[2] / b[2]
            return ("c", round18(chk(act, T.show(t))), tru)
        if h == "*" and a[0] == "c" and b[0] == "l":
            a, b = b, a
        if a[0] == "l" and b[0] == "c":
            if b[1] == 0 or b[2] == 0:
                raise Unsupported("zero coefficient")
            if h == "*":
                return ("l", a[1] * b[1], a[2] * b[2], a[3] * abs(b[1]) + HALF)
            return ("l", a[1] / b[1], a[2] / b[2], a[3] / abs(b[1]) + HALF)
        raise Unsupported("non-linear use of the amount: " + T.show(t)[:80])
    raise Unsupported("construct outside {*, /, scale constants, amount}: " + T.show(t)[:80])


class Poly:
    """sum of monomials coef * prod(amount_k ^ e_k): {exponents: (act, true)}
    plus the absolute error accumulated by roundings of amount-carrying
    intermediates (None once a product / quotient of two amounts is involved:
    then only the coefficients are compared)."""

    def __init__(self, monos, err):
        self.monos = monos
        self.err = err

    def is_const(self):
        return all(not any(e) for e in self.monos)

    def const(self):
        return self.monos.get(next(iter(self.monos)))


def analyse_poly(t, consts, amounts):
    """General form of `analyse` for sums / products / quotients of several
    amounts (amounts: ordered list of canon terms)."""
    n = len(amounts)
    zero = (0,) * n
    t = T.canon(t)
    if t in consts:
        return Poly({zero: (consts[t], consts[t])}, Fraction(0))
    if t in amounts:
        e = tuple(1 if i == amounts.index(t) else 0 for i in range(n))
        return Poly({e: (Fraction(1), Fraction(1))}, Fraction(0))
    h = t[0]
    if h == "num":
        return Poly({zero: (Fraction(t[1]), Fraction(t[1]))}, Fraction(0))
    if h == "neg":
        x = analyse_poly(t[1], consts, amounts)
        return Poly({e: (-a, -b) for e, (a, b) in x.monos.items()}, x.err)
    if h in ("+", "-"):
        a = analyse_poly(t[1], consts, amounts)
        b = analyse_poly(t[2], consts, amounts)
        sg = 1 if h == "+" else -1
        m = dict(a.monos)
        for e, (x, y) in b.monos.items():
            x0, y0 = m.get(e, (Fraction(0), Fraction(0)))
            m[e] = (x0 + sg * x, y0 + sg * y)
        err = None if a.err is None or b.err is None else a.err + b.err
        return Poly(m, err)  # decimal addition is exact within 18 fractional digits
    if h in ("*", "/"):
        a = analyse_poly(t[1], consts, amounts)
        b = analyse_poly(t[2], consts, amounts)
        if a.is_const() and b.is_const() and len(a.monos) == 1 and len(b.monos) == 1:
            (x, y), (u, v) = a.const(), b.const()
            if h == "/" and (u == 0 or v == 0):
                raise Unsupported("division by a zero constant")
            act = x * u if h == "*" else x / u
            tru = y * v if h == "*" else y / v
            return Poly({zero: (round18(chk(act, T.show(t))), tru)}, Fraction(0))
        if h == "*" and a.is_const() and not b.is_const():
            a, b = b, a
        if b.is_const() and len(b.monos) == 1:
            (u, v) = b.const()
            if u == 0 or v == 0:
                raise Unsupported("zero coefficient")
            if h == "*":
                m = {e: (x * u, y * v) for e, (x, y) in a.monos.items()}
                err = None if a.err is None else a.err * abs(u) + HALF
            else:
                m = {e: (x / u, y / v) for e, (x, y) in a.monos.items()}
                err = None if a.err is None else a.err / abs(u) + HALF
            return Poly(m, err)
        if len(a.monos) == 1 and len(b.monos) == 1:
            (ea, (x, y)), (eb, (u, v)) = next(iter(a.monos.items())), next(iter(b.monos.items()))
            if h == "*":
                return Poly({tuple(i + j for i, j in zip(ea, eb)): (x * u, y * v)}, None)
            if u == 0 or v == 0:
                raise Unsupported("zero coefficient")
            return Poly({tuple(i - j for i, j in zip(ea, eb)): (x / u, y / v)}, None)
        raise Unsupported("product / quotient of sums: " + T.show(t)[:80])
    raise Unsupported("construct outside {+, -, *, /, scale constants, amounts}: " + T.show(t)[:80])


def worst(poly):
    """(max relative coefficient error, absolute rounding or None)"""
    rel = Fraction(0)
    for e, (act, tru) in poly.monos.items():
        if tru == 0:
            if act != 0:
                return (Fraction(1), poly.err)
            continue
        rel = max(rel, abs(act - tru) / abs(tru))
    return rel, poly.err


COEF_TOL = Fraction(1, 10 ** 18)
ABS_TOL = Fraction(1, 10 ** 18)


def guard_value(atom, consts, units):
    """Truth of a guard atom for a concrete unit pair: order / equality of
    scale constants, or equality of the two unit terms (units: {canon: name})."""
    a = T.canon(atom)
    if a[0] in ("==", "<", "<="):
        x, y = T.canon(a[1]), T.canon(a[2])
        if x in consts and y in consts:
            return {"==": consts[x] == consts[y], "<": consts[x] < consts[y], "<=": consts[x] <= consts[y]}[a[0]]
        if a[0] == "==" and x in units and y in units:
            return units[x] == units[y]
    raise Unsupported("guard atom not decided by the unit pair: " + T.show(a)[:80])


def select(outs, consts, units):
    hit = [(k, t) for (g, k, t) in outs if all(guard_value(a, consts, units) == p for a, p in g)]
    if len(hit) != 1:
        raise Unsupported("%d outcomes apply to the unit pair" % len(hit))
    return hit[0]
