"""Run context: obligations, violations, known findings, evidence."""
import json
import os
import sys
import time

from . import facts

VERIF = facts.VERIF
EVID = os.environ.get("QV_EVID") or os.path.join(VERIF, "evidence")
KNOWN = os.path.join(VERIF, "known_findings.json")


def load_known():
    try:
        with open(KNOWN) as fh:
            d = json.load(fh)
    except FileNotFoundError:
        return []
    return d.get("findings", [])


class Ctx:
    def __init__(self, prop, tier, seed, level, only_key=None):
        self.prop = prop
        self.tier = tier
        self.seed = seed
        self.level = level
        self.t0 = time.time()
        self.obs = []            # (key, ok, detail, where)
        self.samples = []
        self.notes = []
        self.trusted = []
        self.assumptions = []
        self.unverified = []
        self.only_key = only_key
        self.rule_text = ""
        self.explanation = ""
        self.extra = {}
        self.exhaustive = None
        self.configs = []
        self.floors = []         # (what, counted, floor)

    # -- obligations ----------------------------------------------------
    def ob(self, rule, instance, ok, detail="", where=None, nontrivial=True):
        key = "%s/%s/%s" % (self.prop, rule, instance)
        self.obs.append({"key": key, "ok": bool(ok), "detail": detail, "where": where,
                         "rule": rule, "nontrivial": nontrivial})
        return bool(ok)

    def fail(self, rule, instance, detail, where=None):
        return self.ob(rule, instance, False, detail, where)

    def floor(self, what, counted, floor):
        """Fail closed when fewer instances are analysed than confirmed by hand."""
        self.floors.append((what, counted, floor))
        self.ob("floor", what, counted >= floor,
                "analysed %d %s, floor is %d (a rule matching fewer sites would pass vacuously)" % (counted, what, floor))

    def sample(self, s):
        if len(self.samples) < 12:
            self.samples.append(s)

    # -- finish -----------------------------------------------------------
    def finish(self):
        known = [k for k in load_known() if k.get("property") == self.prop]
        known_keys = {k["key"]: k for k in known if k.get("status") == "known"}
        viol = [o for o in self.obs if not o["ok"]]
        if self.only_key:
            viol = [o for o in viol if o["key"] == self.only_key]
        new = []
        seen_known = []
        seen = set()
        for v in viol:
            if v["key"] in seen:
                continue
            seen.add(v["key"])
            if v["key"] in known_keys:
                seen_known.append(v)
            else:
                new.append(v)
        os.makedirs(os.path.join(EVID, "replay"), exist_ok=True)
        if not self.only_key:
            import glob
            for old in glob.glob(os.path.join(EVID, "replay", self.prop + "-*.json")):
                os.remove(old)
        for v in seen_known:
            print("KNOWN-FINDING: property=%s %s — %s" % (self.prop, v["key"], known_keys[v["key"]].get("what", v["detail"])))
        if len(new) > 25:
            print("(%d violations; the first 25 are listed, all keys are in the evidence file)" % len(new))
        for i, v in enumerate(new[:25]):
            rp = os.path.join(EVID, "replay", "%s-%d.json" % (self.prop, i))
            with open(rp, "w") as fh:
                json.dump({"property": self.prop, "key": v["key"], "rule": v["rule"], "detail": v["detail"],
                           "where": v["where"], "tier": self.tier, "configs": self.configs}, fh, indent=1)
            print("VIOLATION property=%s replay=%s" % (self.prop, rp))
            print("  rule=%s key=%s" % (v["rule"], v["key"]))
            print("  at %s" % (v["where"] or "?"))
            print("  %s" % v["detail"])
        # obligations recorded as known findings are reported separately (they are
        # neither discharged nor new violations)
        kf = {v["key"] for v in seen_known}
        counted = [o for o in self.obs if o["key"] not in kf]
        n_ob = len(counted)
        n_ok = sum(1 for o in counted if o["ok"])
        distinct = len({o["key"] for o in self.obs if o["nontrivial"]})
        cov = {
            "evaluations": n_ob,
            "distinct_nontrivial": distinct,
            "rule": self.rule_text,
            "samples": self.samples or [o["key"] for o in self.obs[:5]],
            "obligations": n_ob,
            "discharged": n_ok,
            "checker_cmd": "./check %s --tier %s" % (self.prop, self.tier),
            "trusted_base": self.trusted,
            "explanation": self.explanation,
            "configurations": self.configs,
            "floors": [{"what": w, "counted": c, "floor": f} for (w, c, f) in self.floors],
            "rules": sorted({o["rule"] for o in self.obs}),
            "per_rule": {r: sum(1 for o in self.obs if o["rule"] == r) for r in sorted({o["rule"] for o in self.obs})},
            "unverified": self.unverified,
            "known_findings_seen": [v["key"] for v in seen_known],
            "violating_keys": [v["key"] for v in new],
        }
        if self.level == "translation_validation":
            cov["programs"] = self.extra.get("programs", 0)
            cov["disagreements_checked"] = self.extra.get("disagreements_checked", n_ob)
        if self.exhaustive is not None:
            cov["exhaustive"] = self.exhaustive
        cov.update({k: v for k, v in self.extra.items() if k not in cov})
        ev = {
            "property_id": self.prop,
            "tier": self.tier,
            "seed": self.seed,
            "level": self.level,
            "coverage": cov,
            "assumptions": self.assumptions,
            "wall_s": round(time.time() - self.t0, 3),
            "violations": len(new),
        }
        os.makedirs(EVID, exist_ok=True)
        with open(os.path.join(EVID, self.prop + ".json"), "w") as fh:
            json.dump(ev, fh, indent=1, ensure_ascii=False)
        print("%s %s: %d obligations, %d discharged, %d new violations, %d known findings, %.1fs" % (
            self.prop, self.tier, n_ob, n_ok, len(new), len(seen_known), time.time() - self.t0))
        return 1 if new else 0
