"""Evaluation of a summary term over ONE concrete machine integer (finite
input domains such as i8 are then decided exhaustively, value by value).

Rust semantics with overflow checks on (the dev / test profile): arithmetic
overflow, division by zero and MIN / -1 are panics (`Panic`).  The handful of
inherent integer methods modelled are std contracts; anything else is
`Unsupported` (fail closed)."""
from fractions import Fraction

from . import term as T


class Panic(Exception):
    pass


class Unsupported(Exception):
    pass


class IntEval:
    def __init__(self, bits=8, signed=True):
        self.lo = -(1 << (bits - 1)) if signed else 0
        self.hi = (1 << (bits - 1)) - 1 if signed else (1 << bits) - 1
        self.prefix = "core::num::<impl %s%d>::" % ("i" if signed else "u", bits)

    def chk(self, v, what):
        if not (self.lo <= v <= self.hi):
            raise Panic("arithmetic overflow in %s (value %d outside %d..%d; a panic in builds with overflow checks)" % (what, v, self.lo, self.hi))
        return v

    def ev(self, t, env):
        h = t[0]
        if h == "p":
            if t[1] in env:
                return env[t[1]]
            raise Unsupported("free parameter " + str(t[2]))
        if h == "num":
            v = t[1]
            if isinstance(v, Fraction):
                if v.denominator != 1:
                    raise Unsupported("non-integer literal")
                v = v.numerator
            return int(v)
        if h == "bool":
            return bool(t[1])
        if h in ("and", "or"):
            a = self.ev(t[1], env)
            if h == "and":
                return a and self.ev(t[2], env)
            return a or self.ev(t[2], env)
        if h == "not":
            return not self.ev(t[1], env)
        if h in ("==", "<", "<="):
            a, b = self.ev(t[1], env), self.ev(t[2], env)
            return {"==": a == b, "<": a < b, "<=": a <= b}[h]
        if h in ("+", "-", "*"):
            a, b = self.ev(t[1], env), self.ev(t[2], env)
            return self.chk({"+": a + b, "-": a - b, "*": a * b}[h], T.show(t))
        if h in ("/", "%"):
            a, b = self.ev(t[1], env), self.ev(t[2], env)
            if b == 0:
                raise Panic("division by zero in " + T.show(t))
            q = abs(a) // abs(b)
            if (a < 0) != (b < 0):
                q = -q
            self.chk(q, T.show(t))
            return q if h == "/" else a - q * b
        if h == "neg":
            return self.chk(-self.ev(t[1], env), T.show(t))
        if h == "app" and t[1].startswith(self.prefix):
            m = t[1][len(self.prefix):]
            xs = [self.ev(x, env) for x in t[3]]
            if m == "abs":
                return self.chk(abs(xs[0]), "%s.abs()" % xs[0])
            if m == "wrapping_abs":
                v = abs(xs[0])
                return v if v <= self.hi else self.lo
            if m == "unsigned_abs":
                return abs(xs[0])
            if m == "signum":
                return (xs[0] > 0) - (xs[0] < 0)
            if m == "is_negative":
                return xs[0] < 0
            if m == "is_positive":
                return xs[0] > 0
            if m == "rem_euclid":
                if xs[1] == 0:
                    raise Panic("rem_euclid by zero")
                if xs[0] == self.lo and xs[1] == -1:
                    raise Panic("overflow in rem_euclid")
                return xs[0] % abs(xs[1])
            raise Unsupported("integer method " + m)
        raise Unsupported("construct " + T.show(t)[:80])

    def pick(self, outs, env):
        hit = []
        for (g, k, t) in outs:
            if all(bool(self.ev(a, env)) == p for a, p in g):
                hit.append((k, t))
        if len(hit) != 1:
            raise Unsupported("%d outcomes apply" % len(hit))
        return hit[0]
