"""Evaluation of a summary term over ONE concrete machine integer (finite
input domains such as i8 are then decided exhaustively, value by value).

Rust semantics with overflow checks on (the dev / test profile): arithmetic
overflow, division by zero and MIN / -1 are panics (`Panic`).  The handful of
inherent integer methods modelled are std contracts; anything else is
`Unsupported` (fail closed)."""
from fractions import Fraction

from . import term as T


class Panic(Exception):
    pass


class Unsupported(Exception):
    pass


import re

INT_TY = re.compile(r"^([iu])(8|16|32|64|128|size)$")
INT_METHOD = re.compile(r"^core::num::<impl ([iu](?:8|16|32|64|128|size))>::(\w+)$")


def ty_range(ty):
    m = INT_TY.match(ty or "")
    if not m:
        return None
    bits = 64 if m.group(2) == "size" else int(m.group(2))
    if m.group(1) == "i":
        return -(1 << (bits - 1)), (1 << (bits - 1)) - 1
    return 0, (1 << bits) - 1


class IntEval:
    def __init__(self, bits=8, signed=True, param_types=None):
        self.default_ty = "%s%d" % ("i" if signed else "u", bits)
        self.param_types = dict(param_types or {})

    def ty_of(self, t):
        h = t[0]
        if h == "p":
            return self.param_types.get(t[1], self.default_ty)
        if h == "num":
            return t[2] if len(t) > 2 and ty_range(t[2]) else self.default_ty
        if h == "cast":
            return t[2] if ty_range(t[2]) else self.default_ty
        if h == "app":
            m = INT_METHOD.match(t[1])
            if m:
                if m.group(2) == "unsigned_abs":
                    return "u" + m.group(1)[1:]
                return m.group(1)
            return self.default_ty
        if h in ("+", "-", "*", "/", "%", "neg") and isinstance(t[1], tuple):
            return self.ty_of(t[1])
        return self.default_ty

    def chk(self, v, what, ty=None):
        lo, hi = ty_range(ty or self.default_ty)
        if not (lo <= v <= hi):
            raise Panic("arithmetic overflow in %s (value %d outside %d..%d of %s; a panic in builds with overflow checks)" % (what, v, lo, hi, ty or self.default_ty))
        return v

    def ev(self, t, env):
        h = t[0]
        if h == "p":
            if t[1] in env:
                return env[t[1]]
            raise Unsupported("free parameter " + str(t[2]))
        if h == "num":
            v = t[1]
            if isinstance(v, Fraction):
                if v.denominator != 1:
                    raise Unsupported("non-integer literal")
                v = v.numerator
            return int(v)
        if h == "bool":
            return bool(t[1])
        if h == "cast":
            v = self.ev(t[1], env)
            r = ty_range(t[2])
            if r is None or isinstance(v, bool):
                raise Unsupported("cast to " + str(t[2]))
            lo, hi = r
            span = hi - lo + 1
            return (v - lo) % span + lo        # `as` between integer types wraps (never panics)
        if h in ("and", "or"):
            a = self.ev(t[1], env)
            if h == "and":
                return a and self.ev(t[2], env)
            return a or self.ev(t[2], env)
        if h == "not":
            return not self.ev(t[1], env)
        if h in ("==", "<", "<="):
            a, b = self.ev(t[1], env), self.ev(t[2], env)
            return {"==": a == b, "<": a < b, "<=": a <= b}[h]
        if h in ("+", "-", "*"):
            a, b = self.ev(t[1], env), self.ev(t[2], env)
            return self.chk({"+": a + b, "-": a - b, "*": a * b}[h], T.show(t), self.ty_of(t))
        if h in ("/", "%"):
            a, b = self.ev(t[1], env), self.ev(t[2], env)
            if b == 0:
                raise Panic("division by zero in " + T.show(t))
            q = abs(a) // abs(b)
            if (a < 0) != (b < 0):
                q = -q
            self.chk(q, T.show(t), self.ty_of(t))
            return q if h == "/" else a - q * b
        if h == "neg":
            return self.chk(-self.ev(t[1], env), T.show(t), self.ty_of(t))
        m = INT_METHOD.match(t[1]) if h == "app" else None
        if m:
            ty, name = m.group(1), m.group(2)
            lo, hi = ty_range(ty)
            xs = [self.ev(x, env) for x in t[3]]
            if name == "abs":
                return self.chk(abs(xs[0]), "%s.abs()" % xs[0], ty)
            if name == "wrapping_abs":
                v = abs(xs[0])
                return v if v <= hi else lo
            if name == "unsigned_abs":
                return abs(xs[0])
            if name == "signum":
                return (xs[0] > 0) - (xs[0] < 0)
            if name == "is_negative":
                return xs[0] < 0
            if name == "is_positive":
                return xs[0] > 0
            if name == "rem_euclid":
                if xs[1] == 0:
                    raise Panic("rem_euclid by zero")
                if xs[0] == lo and xs[1] == -1:
                    raise Panic("overflow in rem_euclid")
                return xs[0] % abs(xs[1])
            if name in ("min", "max") and len(xs) == 2:
                return min(xs) if name == "min" else max(xs)
            raise Unsupported("integer method " + name)
        raise Unsupported("construct " + T.show(t)[:80])

    def pick(self, outs, env):
        hit = []
        for (g, k, t) in outs:
            if all(bool(self.ev(a, env)) == p for a, p in g):
                hit.append((k, t))
        if len(hit) != 1:
            raise Unsupported("%d outcomes apply" % len(hit))
        return hit[0]
