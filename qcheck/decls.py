"""Engine B runner: declared quantity definitions from un-expanded sources."""
import glob
import json
import os
import subprocess
from fractions import Fraction

from . import facts

_CACHE = {}


def scan(files, cache=True):
    key = tuple(files)
    if cache and key in _CACHE:
        return _CACHE[key]
    if not os.path.exists(facts.DECLSCAN):
        raise RuntimeError("declscan not built (run setup)")
    out = subprocess.check_output([facts.DECLSCAN] + list(files), text=True)
    d = json.loads(out)
    _CACHE[key] = d
    return d


def repo_files():
    res = []
    for root, dirs, fs in os.walk(facts.REPO):
        dirs[:] = sorted(d for d in dirs if d not in ("target", ".git", "ui"))
        for f in sorted(fs):
            if f.endswith(".rs"):
                res.append(os.path.join(root, f))
    return res


def lit_fraction(arg):
    """Exact rational value of a numeric literal argument as written."""
    digits = arg["digits"].replace("_", "")
    if digits.endswith("."):
        digits += "0"
    return Fraction(digits)


class UnitDecl:
    def __init__(self, attr, line, args, is_ref):
        self.is_ref = is_ref
        self.line = line
        self.raw = args
        self.ident = None
        self.symbol = None
        self.prefix = None
        self.scale_text = None
        self.scale_kind = None
        self.scale = None
        self.doc = None
        self.wellformed = True
        a = list(args)
        try:
            if a and a[0]["kind"] == "ident":
                self.ident = a.pop(0)["value"]
            else:
                self.wellformed = False
            if a and a[0]["kind"] == "str":
                self.symbol = a.pop(0)["value"]
            else:
                self.wellformed = False
            if a and a[0]["kind"] == "ident":
                self.prefix = a.pop(0)["value"]
            if a and a[0]["kind"] in ("int", "float"):
                x = a.pop(0)
                self.scale_text = x["text"]
                self.scale_kind = x["kind"]
                self.scale = lit_fraction(x)
            if a and a[0]["kind"] == "str":
                self.doc = a.pop(0)["value"]
            if a:
                self.wellformed = False
        except (KeyError, ValueError):
            self.wellformed = False
        if is_ref and self.scale is None:
            self.scale = Fraction(1)
            self.scale_text = "1.0"
            self.scale_kind = "float"

    @property
    def name(self):
        return self.ident.replace("_", " ")


def upper_camel(ident):
    """Independent re-implementation of the identifier casing used for enum
    variants: split at '_' and at lower->upper boundaries, capitalise words."""
    words = split_words(ident)
    return "".join(w[:1].upper() + w[1:].lower() for w in words)


def upper_snake(ident):
    return "_".join(w.upper() for w in split_words(ident))


def split_words(ident):
    """Word boundaries of the identifier casing the macro uses (the nine default boundaries of convert_case 0.8):
    `_`, `-` and space are consumed; a word also ends between lower|upper, lower|digit, upper|digit, digit|lower,
    digit|upper and before the last capital of an acronym followed by a lower-case letter (HTTPServer -> HTTP Server)."""
    def up(c):
        return c.upper() != c.lower() and c == c.upper()

    def lo(c):
        return c.upper() != c.lower() and c == c.lower()

    def dg(c):
        return c.isascii() and c.isdigit()
    words = []
    cur = ""
    n = len(ident)
    for i, c in enumerate(ident):
        if c in "_- ":
            words.append(cur)
            cur = ""
            continue
        cur += c
        nx = ident[i + 1] if i + 1 < n else ""
        nx2 = ident[i + 2] if i + 2 < n else ""
        if not nx:
            continue
        if (lo(c) and up(nx)) or (lo(c) and dg(nx)) or (up(c) and dg(nx)) or (dg(c) and lo(nx)) or (dg(c) and up(nx)) \
                or (up(c) and up(nx) and nx2 and lo(nx2)):
            words.append(cur)
            cur = ""
    words.append(cur)
    return [w for w in words if w]


class QtyDecl:
    def __init__(self, d):
        self.d = d
        self.file = d["file"]
        self.ident = d["ident"]
        self.ctx = d["ctx"]
        self.cfg_ctx = d["cfg_ctx"]
        self.line_start = d["line_start"]
        self.line_end = d["line_end"]
        self.derived = None
        if d["derived"]:
            dd = d["derived"]
            if dd.get("op") in ("*", "/") and dd.get("lhs") and dd.get("rhs"):
                self.derived = (dd["lhs"], dd["op"], dd["rhs"])
            else:
                self.derived = ("?", dd.get("tokens"), "?")
        self.units = []
        for u in d["units"]:
            self.units.append(UnitDecl(u["attr"], u["line"], u["args"], u["attr"] == "ref_unit"))
        refs = [u for u in self.units if u.is_ref]
        self.ref = refs[0] if len(refs) == 1 else None
        self.n_ref = len(refs)

    @property
    def key(self):
        rel = os.path.relpath(self.file, facts.REPO)
        return "%s:%s%s" % (rel, "/".join(self.ctx) + "/" if self.ctx else "", self.ident)

    def kind(self):
        if len(self.units) == 1:
            return "single"
        return "ref" if self.ref is not None else "noref"

    def expected_order(self, generated_scale=None):
        """The specified iteration order (C09): with reference unit:
        non-decreasing scale, reference unit first among scale-one units,
        declaration order for other ties; without: name order.
        generated_scale(unit decl) supplies the scale of a unit whose attribute does not spell it as a literal."""
        if self.kind() == "single":
            return list(self.units)
        if self.ref is not None:
            others = [u for u in self.units if not u.is_ref]
            seq = [self.ref] + others
            # stable sort by exact declared scale
            return sorted(seq, key=lambda u: u.scale if u.scale is not None or generated_scale is None else generated_scale(u))
        return sorted(self.units, key=lambda u: u.name)


def all_decls():
    d = scan(repo_files())
    res = []
    for f in d["files"]:
        for q in f["defs"]:
            res.append(QtyDecl(q))
    return res, d
