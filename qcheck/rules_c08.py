"""C08 — construction and scaling by numbers are exact and unit-preserving."""
from fractions import Fraction

from . import model, opforms, rules_c01, spec as S, term as T, ws
from .model import ModelError

a_, b_ = S.P(0, "self"), S.P(1, "rhs")


def run_config(ctx, config):
    w = ws.load(config)
    U = w.U
    ctx.configs.append(config)
    amt = ws.amount_type(config)
    n = rules_c01.record_axioms(ctx, w, config)
    ctx.floor("%s: impl Quantity types" % config, n, 19 if config == "f64-all" else 15)
    cnt = 0
    for q in w.qtypes:
        if q.kind == "dimless":
            continue
        Q = q.path
        UQ = q.unit_path
        forms = [
            # (op, self, rhs, output, expected body)
            ("*", amt, UQ, Q, S.new(a_, b_, tag=Q), "amount*unit"),
            ("*", UQ, amt, Q, S.new(b_, a_, tag=Q), "unit*amount"),
            ("*", amt, Q, Q, S.new(("*", a_, S.amount(b_, tag=Q)), S.unit(b_, tag=Q), tag=Q), "k*q"),
            ("*", Q, amt, Q, S.new(("*", S.amount(a_, tag=Q), b_), S.unit(a_, tag=Q), tag=Q), "q*k"),
            ("/", Q, amt, Q, S.new(("/", S.amount(a_, tag=Q), b_), S.unit(a_, tag=Q), tag=Q), "q/k"),
        ]
        for op, s, r, out, want, label in forms:
            inst = "%s/%s/%s" % (config, Q, label)
            found = opforms.find_op(w, q.crate, op, s, r)
            if len(found) != 1:
                ctx.fail("scalar-op", inst, "expected exactly one impl `%s %s %s`, found %d" % (s, op, r, len(found)), q.span)
                continue
            (_o, _s, _r, o, imp) = found[0]
            ctx.ob("output-type", inst, o == out, "Output is %s, expected %s" % (o, out), imp["span"])
            opforms.body_form(ctx, "scalar-op", inst, U, imp, opforms.OPFN[op], want, record=q)
            cnt += 1
        # borrowed-operand variants (&q * k, k * &q, &q / k, ...), should the tree have any: each must compute what
        # the by-value operator of the same operand pair computes (forwarding calls are looked through)
        byval = {(op, s_, r_): (want, label) for op, s_, r_, _out, want, label in forms}
        inl = set()
        for (op, s_, r_, _o, imp) in U.op_impls(q.crate):
            if (op, s_, r_) in byval:
                it = U.impl_item(imp, opforms.OPFN[op])
                if it is not None:
                    inl.add(it["path"] + "!")
        for (op, s_, r_, o, imp) in U.op_impls(q.crate):
            ss, rs = s_.lstrip("&"), r_.lstrip("&")
            if (s_, r_) == (ss, rs) or not ({ss, rs} & {Q, UQ}) or not ({ss, rs} <= {Q, UQ, amt}) or amt not in (ss, rs) or o != Q:
                continue   # (an operator with another result type, e.g. AmountT / Duration -> Frequency, is a derived operator: C04 / C06)
            inst = "%s/%s/%s %s %s" % (config, Q, s_, op, r_)
            if (op, ss, rs) not in byval:
                ctx.fail("scalar-ref-op", inst, "operator between a borrowed quantity / unit and a number without a by-value counterpart", imp["span"])
                continue
            want, label = byval[(op, ss, rs)]
            ctx.ob("output-type", inst, o == Q, "Output is %s, expected %s" % (o, Q), imp["span"])
            opforms.body_form(ctx, "scalar-ref-op", inst, U, imp, opforms.OPFN[op], want, inline=inl, record=q)
    ctx.floor("%s: scalar/unit operator impls" % config, cnt, 5 * (18 if config == "f64-all" else 14))
    # dimensionless amount
    dim = [q for q in w.qtypes if q.kind == "dimless"]
    if len(dim) != 1:
        raise ModelError("anchor", "expected the dimensionless Quantity impl for the amount type, found %d" % len(dim))
    d = dim[0]
    inst = config + "/dimensionless"
    ctx.ob("dimensionless", inst + "/type", d.path == amt and d.unit_path == "quantities::One",
           "dimensionless quantity is %s with unit type %s" % (d.path, d.unit_path), d.span)
    ctx.ob("dimensionless", inst + "/one-variant", d.variants == ["One"] and d.variants_const == ["One"],
           "unit enum One has variants %s, VARIANTS %s" % (d.variants, d.variants_const), d.span)
    sym = d.tables["symbol"].get("One")
    sc = d.tables.get("scale", {}).get("One")
    ctx.ob("dimensionless", inst + "/symbol", sym == ("str", ""), "symbol of One is %r" % (sym,), d.span)
    ctx.ob("dimensionless", inst + "/scale", sc is not None and sc[0] == "num" and sc[1] == 1 and sc[2] == amt,
           "scale of One is %r" % (sc,), d.span)
    ctx.ob("dimensionless", inst + "/si_prefix", d.tables["si_prefix"].get("One") == ("none",), "One has an SI prefix", d.span)
    ctx.ob("dimensionless", inst + "/ref-unit", d.ref_unit_lsu == "One" and d.ref_unit_hru == "One", "REF_UNIT is not ONE", d.span)
    for s, r, want, label in ((amt, "quantities::One", a_, "amount*ONE"), ("quantities::One", amt, b_, "ONE*amount")):
        found = opforms.find_op(w, d.crate, "*", s, r)
        if len(found) != 1:
            ctx.fail("dimensionless", inst + "/" + label, "expected one impl, found %d" % len(found), d.span)
            continue
        ctx.ob("output-type", inst + "/" + label, found[0][3] == amt, "Output is %s" % found[0][3], found[0][4]["span"])
        opforms.body_form(ctx, "dimensionless", inst + "/" + label, U, found[0][4], "mul", want)
    # AMNT_ONE / AMNT_ZERO fold to 1 / 0 in the amount type
    mod = "quantities::amnt_dec::" if amt != "f64" else "quantities::amnt_f64::"
    for cn, v in (("AMNT_ONE", 1), ("AMNT_ZERO", 0)):
        try:
            c = U.folder.fold_const(mod + cn)
            ok = c[0] == "num" and c[1] == v and c[2] == amt
        except Exception as x:  # noqa
            c, ok = str(x), False
        ctx.ob("dimensionless", "%s/%s" % (config, cn), ok, "%s folds to %r" % (cn, c), None)
    # HasRefUnit for AmountT: _fit is the identity
    if d.impl_hru is not None:
        b = U.item_body(d.impl_hru, "_fit")
        if b is not None:
            opforms.body_form(ctx, "dimensionless", inst + "/_fit", U, d.impl_hru, "_fit", S.P(0, "amount"))


def run(ctx):
    for config in ("f64-all", "dec-all") + (("f64-nostd", "dec-nostd") if ctx.tier == "thorough" else ()):
        run_config(ctx, config)
    ctx.rule_text = "record axioms per impl Quantity; 5 scalar/unit operator forms + output types per quantity type; the dimensionless impls"
    ctx.trusted = ["rustc THIR construction and trait resolution", "the amount type's own * and / (each form contains at most one such node on the operands)"]
    ctx.explanation = ("Every form is a pass-through or a single primitive operation on the operands (exact tree), so the statement holds for zero, -0, "
                       "infinities and NaN without further argument. Checked for every quantity type of every modelled crate in both amount back-ends.")
