"""C04 — derived products and quotients preserve the physical value."""
from . import generic as G, model, opforms, rules_c06, spec as S, term as T, ws
from .model import ModelError

a_, b_ = S.P(0, "self"), S.P(1, "rhs")
OPTRAIT = {"*": "core::ops::arith::Mul", "/": "core::ops::arith::Div"}


def unit_path_of(w, key, amt):
    if key == amt:
        return "quantities::One"
    q = w.by_path.get(key)
    return q.unit_path if q else None


def dimless_form(t, amt):
    """amount(x) -> x and scale(unit) -> 1 for the dimensionless amount type; x*1, x/1 simplified"""
    def go(t):
        if not isinstance(t, tuple):
            return t
        h = t[0]
        if h == "app":
            args = tuple(go(x) for x in t[3])
            if t[1] == "Quantity::amount" and t[2] == amt and len(args) == 1:
                return args[0]
            if t[1] == "LinearScaledUnit::scale" and t[2] == "quantities::One":
                return ("num", 1, amt)
            return ("app", t[1], t[2], args)
        if h in ("p", "num", "str", "bool", "unit", "variant", "none", "const", "panic", "bytes", "opaque_lit", "fnref", "cv", "closure", "lam"):
            return t
        if h == "R":
            return ("R", go(t[1]))
        if h == "adt":
            return ("adt", t[1], t[2], tuple((n, go(x)) for n, x in t[3]))
        if h in ("tuple", "array"):
            return (h, tuple(go(x) for x in t[1]))
        return (h,) + tuple(go(x) if isinstance(x, tuple) else x for x in t[1:])
    return S._simp_units(go(t))


def by_value_form(ctx, config, w, crate, op, A, B, Rr, imp, amt, rule="derived-form", inst=None):
    U = w.U
    inst = inst or "%s/%s %s %s" % (config, A, op, B)
    fn = opforms.OPFN[op]
    UA, UB = unit_path_of(w, A, amt), unit_path_of(w, B, amt)
    if UA is None or UB is None:
        ctx.fail(rule, inst, "operand type is not a modelled quantity type", imp["span"])
        return
    sa = S.scale(S.unit(a_, tag=A), tag=UA)
    sb = S.scale(S.unit(b_, tag=B), tag=UB)
    sigma = (op, sa, sb)
    look = S.app("HasRefUnit::unit_from_scale", sigma, tag=Rr)
    atom = T.canon(("isvar", look, "Some"))
    prod = (op, S.amount(a_, tag=A), S.amount(b_, tag=B))
    b = U.item_body(imp, fn)
    if b is None:
        ctx.fail(rule, inst, "no body", imp["span"])
        return
    # default methods of the library's traits other than the ones the specification names are looked through, with
    # their generic parameters bound to the operator's types (a shared helper for all operand forms stays transparent)
    ev = T.Evaluator(U, keep_tags=True, inline={"*"}, stop=G.STOP)
    try:
        outs = [(g, k, T.canon(t)) for g, k, t in ev.summarize(b)]
    except T.Unsupported as x:
        ctx.fail(rule, inst, "unsupported construct: " + x.what, x.sp or b["span"])
        return

    def spec(val):
        if val(atom):
            return ("val", S.new(prod, ("unwrap", T.canon(look)), tag=Rr))
        return ("val", S.app("HasRefUnit::_fit", S.R(("*", prod, sigma)), tag=Rr))
    try:
        probs = list(S.compare_cases(outs, [atom], spec))
    except T.Unsupported as x:
        ctx.fail(rule, inst, "the operator's body has more cases than the truth-table comparison handles (%s)" % x.what, b["span"])
        return
    if probs and amt in (A, B):
        # an operand is the dimensionless amount: it is its own amount and its one unit has scale 1 (C08's rules), so
        # code that uses the value directly is compared with the specification written the same way
        dl = lambda t: dimless_form(t, amt)
        outs2 = [(tuple((T.canon(dl(a)), p) for a, p in g), k, T.canon(dl(t))) for g, k, t in outs]
        atom2 = T.canon(dl(atom))
        look2 = dl(T.canon(look))

        def spec2(val):
            if val(atom2):
                return ("val", dl(S.new(prod, ("unwrap", look2), tag=Rr)))
            return ("val", S.app("HasRefUnit::_fit", S.R(dl(("*", prod, sigma))), tag=Rr))
        probs = list(S.compare_cases(outs2, [atom2], spec2))
    obs = "; ".join("[%s] %s %s" % (T.show_guard(g), k, T.show(t)) for g, k, t in outs)
    ctx.ob(rule, inst, not probs,
           (probs[0][1] if probs else "") + " — the scale combination must use the impl's own operator, the natural-unit branch must store exactly "
           "the %s of the amounts, the fallback must pass (a %s b)·(s_a %s s_b) to the result type's _fit. Observed: %s" % (
               "product" if op == "*" else "quotient", op, op, obs), b["span"])
    if len(ctx.samples) < 4:
        ctx.sample({"impl": inst, "summary": obs[:700]})


def ref_forms(ctx, config, w, crate, op, A, B, Rr, byval_imp, amt=None):
    U = w.U
    fn = opforms.OPFN[op]
    n = 0
    for (sa, sb) in (("&" + A, B), (A, "&" + B), ("&" + A, "&" + B)):
        inst = "%s/%s %s %s" % (config, sa, op, sb)
        found = opforms.find_op(w, crate, op, sa, sb)
        if len(found) != 1:
            ctx.fail("ref-form", inst, "expected exactly one impl, found %d" % len(found), byval_imp["span"])
            continue
        (_o, _s, _r, out, imp) = found[0]
        ctx.ob("ref-form-output", inst, out == Rr, "Output is %s, by-value Output is %s" % (out, Rr), imp["span"])
        b = U.item_body(imp, fn)
        if b is None:
            ctx.fail("ref-form", inst, "no body", imp["span"])
            continue
        ev = T.Evaluator(U, keep_tags=True, max_depth=0)
        try:
            outs = ev.summarize(b)
        except T.Unsupported as x:
            ctx.fail("ref-form", inst, "unsupported construct: " + x.what, x.sp or b["span"])
            continue
        calls = [f for f in ev.calls_seen if f.get("trait") == OPTRAIT[op]]
        ok = False
        why = "body is %s" % "; ".join(T.show(T.canon(o[2])) for o in outs)
        if len(outs) == 1 and not outs[0][0] and len(calls) == 1 and len(ev.calls_seen) == 1:
            f = calls[0]
            t = T.canon(outs[0][2])
            args_ok = t[0] == "app" and t[3] == (a_, b_)
            tys = [model.ty_key(x) for x in f["args"]]
            r = f.get("resolved") or {}
            target_ok = tys == [A, B] and r.get("impl_index") == byval_imp["index"] and r.get("impl_crate_local", True)
            ok = args_ok and target_ok
            why = "forwards to <%s as %s<%s>>::%s (impl #%s) with arguments %s; expected the by-value impl #%s with (self, rhs) dereferenced in order" % (
                tys[0], OPTRAIT[op].split("::")[-1], tys[1] if len(tys) > 1 else "?", fn, r.get("impl_index"), T.show(t), byval_imp["index"])
        if not ok and amt is not None and not (len(calls) == 1 and len(ev.calls_seen) == 1):
            # not a forwarder: the borrowed form carries the algorithm itself (e.g. all four operand forms call one
            # shared helper) and is held against the same specification as the by-value form
            by_value_form(ctx, config, w, crate, op, A, B, Rr, imp, amt, rule="ref-form", inst=inst)
            if config.startswith("dec"):
                decimal_accuracy(ctx, config, w, op, A, B, Rr, imp, amt)
            n += 1
            continue
        ctx.ob("ref-form", inst, ok, why, b["span"])
        n += 1
    return n


def fit_form(ctx, config, U, w=None):
    """_fit returns new(amount / scale(u), u) for one unit u.  Decided on the form of the summary where that is
    syntactically evident; otherwise (e.g. the scale travels through the iterator in a tuple) by evaluating the
    summary on every cell of every result type's scale partition: within a cell the selected unit and hence the
    divisor is constant, and the amount is otherwise used in comparisons only (C05/amount-only-compared)."""
    outs, b, ev = G.summarize(U, G.HRU + "_fit", {"*"})
    amount = S.P(0, "amount")
    ok = True
    why = ""
    n = 0
    for (g, k, t) in outs:
        if k != "val":
            continue
        n += 1
        good = (t[0] == "app" and t[1] == "Quantity::new" and len(t[3]) == 2 and
                S.match(t[3][0], ("/", amount, S.scale(t[3][1]))) is None)
        if not good:
            ok = False
            why = "case [%s] returns %s, which is not new(amount / scale(u), u) for one unit u" % (T.show_guard(g), T.show(t))
    if not ok and w is not None:
        from . import conc, rules_c05
        bad = rules_c05.amount_only_compared(outs, ev, U)
        sem_ok, sem_why, cells = not bad, "the amount is used outside comparisons and the final division (%s)" % bad, 0
        if sem_ok:
            for q in w.qtypes:
                if q.kind != "ref":
                    continue
                c = conc.Conc(U, q, ev)
                for (cname, x) in rules_c05.cells(q):
                    if x == 0:
                        continue
                    try:
                        res = c.pick(outs, {0: x})
                    except (conc.CannotEvaluate, conc.ModelPanic, T.Unsupported) as e:
                        sem_ok, sem_why = False, "cannot evaluate the summary for %s, magnitude %s: %s" % (q.path, cname, e)
                        break
                    cells += 1
                    if not (isinstance(res, tuple) and res[0] == "qty" and res[2] in q.variants and res[1] == x / q.tables["scale"][res[2]][1]):
                        sem_ok, sem_why = False, "for %s, magnitude %s, _fit returns %s — not (amount / scale(u), u)" % (q.path, cname, (res,))
                        break
                if not sem_ok:
                    break
        if sem_ok and cells:
            ok, why = True, ""
            ctx.extra.setdefault("fit_form_semantic_cells", {})[config] = cells
        else:
            why = why + " — and by evaluation: " + sem_why
    ctx.ob("fit-form", config, ok and n >= 1, why or "no returning case", b["span"])
    return outs


def premises(ctx, config, w):
    """C04 reasons on the generic default bodies: no impl may override them, and
    the scale lookup used by the generated operators must return only a unit
    with the requested scale (evaluated on every result type's table,
    including the dimensionless amount)."""
    from . import conc
    U = w.U
    for trait, allowed, label in ((model.T_UNIT, {"QuantityType", "iter", "name", "symbol", "si_prefix", "<rpitit>"}, "Unit"),
                                  (model.T_LSU, {"REF_UNIT", "scale"}, "LinearScaledUnit"),
                                  (model.T_QUANTITY, {"UnitType", "new", "amount", "unit"}, "Quantity"),
                                  (model.T_HRU, {"REF_UNIT"}, "HasRefUnit")):
        for tk, (extra, imp) in G.overrides(ctx, "override", U, trait, allowed, label).items():
            if label == "HasRefUnit" and tk in model.AMOUNT_TYPES:
                extra = [x for x in extra if x != "_fit"]    # the dimensionless amount: _fit is the identity (its own rule)
            # symbol lookups play no part in the derived operators; overridden scale lookups are evaluated below
            # with the type's own bodies
            extra = [x for x in extra if x in {"HasRefUnit": {"_fit"}, "Quantity": {"iter_units"}}.get(label, set())]
            if extra:
                from . import ovequiv
                extra = ovequiv.filter_equivalent(ctx, "override", config, w, label, tk, extra, imp)
            if not extra:
                continue
            ctx.fail("override", "%s/%s/%s" % (config, label, tk),
                     "impl %s for %s overrides %s: the generated operators of types using it are not covered by the generic analysis" % (label, tk, extra), imp["span"])
    louts0, lb0, lev0 = G.summarize(U, G.HRU + "unit_from_scale", {"*"}, stop=G.STOP_LOOKUP)
    n = 0
    for q in w.qtypes:
        if q.kind not in ("ref", "dimless") or "scale" not in q.tables:
            continue
        ov = {k: v for k, v in G.type_overrides(U, q).items() if k in ("LinearScaledUnit::from_scale", "HasRefUnit::unit_from_scale")}
        if ov:
            louts, lb, lev = G.summarize(U, G.HRU + "unit_from_scale", {"*"}, stop=G.STOP_LOOKUP, overrides=ov)
        else:
            louts, lb, lev = louts0, lb0, lev0
        scales = sorted({q.tables["scale"][v][1] for v in q.variants_const})
        probes = scales + [scales[0] / 3, scales[-1] * 7, (scales[0] + scales[-1]) / 2 + 1]
        for sgm in probes:
            try:
                r = conc.Conc(U, q, lev).pick(louts, {0: sgm})
                ok = (r is None and sgm not in scales) or (r is not None and q.tables["scale"][r[1]][1] == sgm)
                why = "unit_from_scale(%s) on %s yields %s" % (sgm, q.path, r)
            except (conc.CannotEvaluate, conc.ModelPanic, T.Unsupported) as x:
                ok, why = False, "cannot evaluate the lookup model on %s: %s" % (q.path, x)
            n += 1
            ctx.ob("lookup-returns-matching-scale", "%s/%s/%s" % (config, q.path, sgm), ok,
                   why + " — the natural-unit branch then stores the product of the amounts with a unit of a different scale", lb["span"], nontrivial=False)
    return n


def natural_unit_exact(ctx, config, w, o, X, Y, Rr, amt, where):
    """Decimal back-end: the combined scale is a rounded decimal (18 fractional
    digits).  If the rounded value coincides with the scale of a result unit
    while the exact product / quotient does not, the natural-unit branch stores
    a (x) b with a unit of the wrong scale.  One obligation per unit pair."""
    from fractions import Fraction
    from .magn import round18

    def rows(key):
        if key == amt:
            return [("One", Fraction(1))]
        q = w.by_path.get(key)
        return [(v, q.tables["scale"][v][1]) for v in q.variants_const]
    rscales = {s: v for v, s in rows(Rr)}
    n = 0
    for (u, sa) in rows(X):
        for (v, sb) in rows(Y):
            sigma = sa * sb if o == "*" else sa / sb
            sd = round18(sigma)
            n += 1
            if sd in rscales:
                rel = abs(sd - sigma) / sigma
                ctx.ob("natural-unit-exact", "%s/%s %s %s/%s,%s" % (config, X, o, Y, u, v), rel <= Fraction(1, 10 ** 18),
                       "the decimal scale combination %s %s %s rounds to %s = scale of %s::%s although the exact value is %.20g (relative error %.3g): "
                       "the natural-unit branch then stores the bare %s of the amounts under a unit of the wrong scale"
                       % (float(sa), o, float(sb), float(sd), Rr, rscales[sd], float(sigma), float(rel), "product" if o == "*" else "quotient"),
                       where, nontrivial=False)
    return n


def decimal_accuracy(ctx, config, w, o, X, Y, Rr, imp, amt):
    """Decimal back-end: for every unit pair the amount the operator stores (natural-unit branch) or hands to _fit
    (fallback) is the monomial a (x) b times a coefficient; with the amount-free sub-trees folded as fpdec computes
    them (18 fractional digits) that coefficient must equal its exact value — 1 resp. s_a (x) s_b — to 1e-18 relative.
    A fallback that multiplies by the *rounded* scale quotient s_a / s_b loses most digits for far-apart units."""
    from fractions import Fraction
    from . import accuracy as A
    from .magn import round18
    U = w.U
    body = U.item_body(imp, opforms.OPFN[o])
    ev = T.Evaluator(U, keep_tags=True, inline={"*"}, stop=G.STOP)
    try:
        outs = [(g, k, T.canon(t)) for g, k, t in ev.summarize(body)]
    except T.Unsupported:
        return 0   # reported by derived-form
    UX, UY = unit_path_of(w, X, amt), unit_path_of(w, Y, amt)
    sa_t = T.canon(S.scale(S.unit(a_, tag=X), tag=UX))
    sb_t = T.canon(S.scale(S.unit(b_, tag=Y), tag=UY))
    amounts = [T.canon(S.amount(a_, tag=X)), T.canon(S.amount(b_, tag=Y))]

    def rows(key):
        if key == amt:
            return [("One", Fraction(1))]
        q = w.by_path.get(key)
        return [(v, q.tables["scale"][v][1]) for v in q.variants_const]
    rscales = {s for _, s in rows(Rr)}
    n = 0
    worst = None
    for (u, sa) in rows(X):
        for (v, sb) in rows(Y):
            sigma = sa * sb if o == "*" else sa / sb
            natural = round18(sigma) in rscales
            sel = [(k, t) for (g, k, t) in outs if all((a[0] == "isvar") and (p == natural) for a, p in g)]
            if len(sel) != 1 or sel[0][0] != "val":
                continue   # branch structure is judged by derived-form
            t = sel[0][1]
            if t[0] == "app" and t[1] in ("HasRefUnit::_fit", "Quantity::new") and t[3]:
                t = t[3][0]
            try:
                rel, _err = A.worst(A.analyse_poly(t, {sa_t: sa, sb_t: sb}, amounts))
            except A.Overflow:
                continue   # outside the magnitude range C18 analyses (its decimal-range rule judges representability)
            except A.Unsupported:
                continue
            n += 1
            if rel > A.COEF_TOL and (worst is None or rel > worst[0]):
                worst = (rel, u, v, t)
    inst = "%s/%s %s %s" % (config, X, o, Y)
    if worst is None:
        ctx.ob("decimal-accuracy", inst, True, "", imp["span"])
    else:
        ctx.ob("decimal-accuracy", inst, False,
               "with units (%s, %s) the evaluated amount %s carries a scale coefficient off by %.3g relative (allowed %.1g): a rounded 18-digit scale "
               "combination is applied to the amounts — far beyond the rounding of the amount type" % (worst[1], worst[2], T.show(worst[3])[:200], float(worst[0]), float(A.COEF_TOL)),
               imp["span"])
    return n


def run_config(ctx, config, counts):
    w = ws.load(config)
    U = w.U
    amt = ws.amount_type(config)
    ctx.configs.append(config)
    fit_form(ctx, config, U, w)
    premises(ctx, config, w)
    for crate in w.crates:
        qts = [q for q in w.qtypes if q.crate is crate and q.kind != "dimless"]
        for q in qts:
            d = w.decl_of.get(q.path)
            if d is None or d.derived is None:
                continue
            (A, op, B) = d.derived
            scope = q.path.rsplit("::", 1)[0]
            Ap = rules_c06.resolve_ident(A, scope, w.qtypes, amt)
            Bp = rules_c06.resolve_ident(B, scope, w.qtypes, amt)
            if Ap is None or Bp is None:
                ctx.fail("derivation-resolve", "%s/%s" % (config, q.path), "cannot resolve %s %s %s" % (A, op, B), q.span)
                continue
            for (o, X, Y, Rr) in sorted(rules_c06.derived_closure(q.path, Ap, op, Bp)):
                found = opforms.find_op(w, crate, o, X, Y)
                inst = "%s/%s %s %s" % (config, X, o, Y)
                if len(found) != 1:
                    ctx.fail("derived-impl", inst, "expected exactly one by-value impl, found %d" % len(found), q.span)
                    continue
                (_o, _s, _r, out, imp) = found[0]
                ctx.ob("derived-output", inst, out == Rr, "Output is %s, declared result type %s" % (out, Rr), imp["span"])
                by_value_form(ctx, config, w, crate, o, X, Y, Rr, imp, amt)
                if config.startswith("dec"):
                    counts["natural"] = counts.get("natural", 0) + natural_unit_exact(ctx, config, w, o, X, Y, Rr, amt, imp["span"])
                    counts["accuracy"] = counts.get("accuracy", 0) + decimal_accuracy(ctx, config, w, o, X, Y, Rr, imp, amt)
                counts["byval"].add((config, X, o, Y))
                counts["ref"] += ref_forms(ctx, config, w, crate, o, X, Y, Rr, imp, amt)


def run(ctx):
    counts = {"byval": set(), "ref": 0}
    for config in ("f64-all", "dec-all") + (("f64-nostd", "dec-nostd") if ctx.tier == "thorough" else ()):
        run_config(ctx, config, counts)
    cat = lambda c: len([x for x in counts["byval"] if x[0] == c and (x[1].startswith("quantities::") or x[3].startswith("quantities::"))])
    ctx.floor("f64-all catalogue by-value derived operators", cat("f64-all"), 34)
    ctx.floor("dec-all catalogue by-value derived operators", cat("dec-all"), 34)
    ctx.floor("f64-all astronomical by-value derived operators", len([x for x in counts["byval"] if x[0] == "f64-all" and x[1].startswith("astronomical")]), 4)
    ctx.floor("decimal unit pairs examined for natural-unit exactness", counts.get("natural", 0), 2000)
    ctx.floor("decimal unit pairs with analysed scale-coefficient accuracy", counts.get("accuracy", 0), 2000)
    ctx.floor("reference forms", counts["ref"], 3 * (34 + 4 + 8) + 3 * (34 + 8))
    ctx.rule_text = "one value-flow obligation per by-value derived operator impl and configuration (2 guard cases), three who-calls obligations for its reference forms, the generic _fit form"
    ctx.trusted = ["rustc THIR construction and trait resolution", "IEEE-754 / fpdec arithmetic per node",
                   "unit_from_scale returns only a unit whose scale equals its argument (C09 lookup-form)"]
    ctx.assumptions = ["size of the rounding error not decided; which unit is selected is C05"]
    ctx.explanation = ("Every generated Mul/Div between quantity types is summarised: the combined scale uses the impl's own operator on (scale(unit(self)), scale(unit(rhs))); "
                       "if the result type has a unit of that scale the result is new(a⊗b, that unit) exactly; otherwise the result type's _fit receives (a⊗b)·σ as a rational "
                       "function, and _fit returns new(x / scale(u), u) for one unit u, so the magnitude is preserved whichever unit is selected. Reference forms forward "
                       "the dereferenced operands in order to the by-value impl of the same pair.")
