"""C10 — quantities without a reference unit never mix units silently."""
from . import generic as G, model, opforms, spec as S, term as T, ws

a_, b_ = S.P(0, "self"), S.P(1, "rhs")
o_ = S.P(1, "other")


def run_config(ctx, config):
    w = ws.load(config)
    U = w.U
    ctx.configs.append(config)
    A = S.amount(a_)
    ua = S.unit(a_)
    for other, names in ((o_, ("eq", "partial_cmp")), (b_, ("add", "sub", "div"))):
        B = S.amount(other)
        ub = S.unit(other)
        same = T.canon(("==", ua, ub))
        eqA = T.canon(("==", A, B))
        for fn in names:
            if fn == "eq":
                spec = lambda val, same=same, eqA=eqA: ("val", ("bool", val(same) and val(eqA)))
                # eq returns a boolean term: compare as Boolean function over the atoms
                outs, body, _ = G.summarize(U, G.QTY + "eq", G.INL_CONV)
                atoms = T.guard_atoms(outs, [same, eqA])
                for (g, k, t) in outs:
                    T.bool_atoms(t, atoms) if k == "val" else None
                bad = None
                for asg in T.assignments(atoms):
                    sel = T.select(outs, asg)
                    if len(sel) != 1 or sel[0][0] != "val":
                        bad = "not a single boolean value"
                        break
                    got = T.bool_eval(sel[0][1], asg)
                    if got != (asg[same] and asg[eqA]):
                        bad = "with units %s and amounts %s the result is %s" % (
                            "equal" if asg[same] else "different", "equal" if asg[eqA] else "different", got)
                        break
                ctx.ob("eq", config, bad is None,
                       "Quantity::eq is not `same unit AND same amount`: %s — observed %s" % (bad, "; ".join(T.show(t) for g, k, t in outs)), body["span"])
                continue
            if fn == "partial_cmp":
                spec = lambda val, same=same, B=B: ("val", ("pcmp", A, B)) if val(same) else ("val", ("none",))
            elif fn == "div":
                spec = lambda val, same=same, B=B: ("val", ("/", A, B)) if val(same) else ("panic", None)
            else:
                op = "+" if fn == "add" else "-"
                spec = lambda val, same=same, B=B, op=op: ("val", S.new((op, A, B), ua)) if val(same) else ("panic", None)
            G.check_spec(ctx, fn, config, U, G.QTY + fn, G.INL_CONV, [same], spec)
    amt = ws.amount_type(config)
    n_noref = n_single = 0
    G.unit_identity(ctx, config, w)
    for q in w.qtypes:
        if q.kind not in ("noref", "single"):
            continue
        opforms.assign_ops(ctx, "assign-through-operator", config, w, q)
        # no conversion machinery
        ctx.ob("no-ref-unit-traits", "%s/%s" % (config, q.path), q.impl_hru is None and q.impl_lsu is None,
               "a type without reference unit implements HasRefUnit / LinearScaledUnit", q.span)
        if q.kind == "noref":
            n_noref += 1
            for trait, fn, other in (("core::cmp::PartialEq", "eq", "other"), ("core::cmp::PartialOrd", "partial_cmp", "other")):
                imps = [i for i in q.crate.impls if i.get("trait") == trait and model.ty_key(i["self_ty"]) == q.path]
                inst = "%s/%s/%s" % (config, q.path, fn)
                if len(imps) != 1:
                    ctx.fail("forwarder", inst, "expected one impl %s, found %d" % (trait, len(imps)), q.span)
                    continue
                names = {i["name"] for i in imps[0]["items"]}
                ctx.ob("forwarder-items", inst, names == {fn}, "impl provides %s" % sorted(names), imps[0]["span"])
                opforms.body_form(ctx, "forwarder", inst, U, imps[0], fn, ("app", "Quantity::" + fn, q.path, (a_, S.P(1, other))))
            for op, fn in (("+", "add"), ("-", "sub"), ("/", "div")):
                inst = "%s/%s/%s" % (config, q.path, fn)
                found = opforms.find_op(w, q.crate, op, q.path, q.path)
                if len(found) != 1:
                    ctx.fail("forwarder", inst, "expected one impl of `%s %s %s`, found %d" % (q.name, op, q.name, len(found)), q.span)
                    continue
                (_o, _s, _r, out, imp) = found[0]
                ctx.ob("output-type", inst, out == (amt if op == "/" else q.path), "Output is %s" % out, imp["span"])
                opforms.body_form(ctx, "forwarder", inst, U, imp, fn, ("app", "Quantity::" + fn, q.path, (a_, b_)))
        else:
            n_single += 1
            At, Bt = S.amount(a_, tag=q.path), S.amount(b_, tag=q.path)
            for op, fn in (("+", "add"), ("-", "sub"), ("/", "div")):
                inst = "%s/%s/%s" % (config, q.path, fn)
                found = opforms.find_op(w, q.crate, op, q.path, q.path)
                if len(found) != 1:
                    ctx.fail("single-unit", inst, "expected one impl of `%s %s %s`, found %d" % (q.name, op, q.name, len(found)), q.span)
                    continue
                (_o, _s, _r, out, imp) = found[0]
                ctx.ob("output-type", inst, out == (amt if op == "/" else q.path), "Output is %s" % out, imp["span"])
                if op == "/":
                    want = ("/", At, Bt)
                else:
                    want = S.new((op, At, Bt), S.unit(a_, tag=q.path), tag=q.path)
                opforms.body_form(ctx, "single-unit", inst, U, imp, fn, want, record=q)
    base = config in ("f64-all", "dec-all")   # the no_std configurations contain the catalogue only (Temperature)
    ctx.floor("%s: types without reference unit" % config, n_noref, 2 if base else 1)
    ctx.floor("%s: single-unit types" % config, n_single, 1 if base else 0)


def run(ctx):
    for config in ("f64-all", "dec-all") + (("f64-nostd", "dec-nostd") if ctx.tier == "thorough" else ()):
        run_config(ctx, config)
    ctx.rule_text = "5 generic obligations per configuration (truth table over unit-equality / amount-equality atoms, diverging branch included) + forwarders per type"
    ctx.trusted = ["rustc THIR construction and trait resolution", "derived PartialEq of field-less unit enums is discriminant equality",
                   "core::panicking::panic_fmt diverges"]
    ctx.explanation = ("Quantity::{eq,partial_cmp,add,sub,div} summarised as gated terms: equality is exactly `same unit ∧ same amount`, ordering is None across units, "
                       "arithmetic across units ends in a diverging panic and never reaches a return; types without reference unit forward to these bodies and have "
                       "no conversion traits; single-unit types do plain amount arithmetic.")
