"""A4/A5 — evaluation of extracted models (terms) over concrete table rows.

This interprets the *summary terms* of iterator chains and closures over the
finite tables extracted from the program; it never runs the program.  Units
are variant names, numbers exact Fractions, iterators Python lists.  The std
iterator functions are contracted primitives (trusted semantics)."""
from fractions import Fraction

from . import term as T

ITER = "core::iter::traits::iterator::Iterator::"


class ModelPanic(Exception):
    pass


class CannotEvaluate(Exception):
    pass


class Conc:
    def __init__(self, U, q, ev=None, dec=False):
        self.dec = dec      # decimal back-end: products / quotients round to 18 fractional digits and panic on overflow
        self.U = U
        self.q = q
        self.ev = ev or T.Evaluator(U, keep_tags=False)
        self.slots = {}
        self.used_primitives = set()

    def scale(self, v):
        return self.q.tables["scale"][v][1]

    def cv(self, value):
        k = len(self.slots)
        self.slots[k] = value
        return ("cv", k)

    def eval(self, t, params):
        h = t[0]
        if h == "cv":
            return self.slots[t[1]]
        if h == "p":
            if t[1] not in params:
                raise CannotEvaluate("free parameter " + t[2])
            return params[t[1]]
        if h == "num":
            return t[1]
        if h in ("bool", "str"):
            return t[1]
        if h == "variant":
            return t[2]
        if h == "none":
            return None
        if h in ("array", "tuple"):
            return [self.eval(x, params) for x in t[1]]
        if h == "field":
            v = self.eval(t[1], params)
            if isinstance(v, (list, tuple)) and isinstance(t[2], int) and 0 <= t[2] < len(v):
                return v[t[2]]
            raise CannotEvaluate("field " + T.show(t))
        if h == "index":
            base, idx = self.eval(t[1], params), self.eval(t[2], params)
            if isinstance(base, list) and not isinstance(idx, (list, tuple, str)) and idx == int(idx):
                if 0 <= int(idx) < len(base):
                    return base[int(idx)]
                raise ModelPanic("index %d out of bounds (len %d)" % (int(idx), len(base)))
            raise CannotEvaluate("index " + T.show(t))
        if h == "some":
            return ("some", self.eval(t[1], params))
        if h == "const":
            if t[1] in ("HasRefUnit::REF_UNIT", "LinearScaledUnit::REF_UNIT"):
                return self.q.ref_unit_hru or self.q.ref_unit_lsu
            raise CannotEvaluate("constant " + t[1])
        if h == "unwrap":
            v = self.eval(t[1], params)
            if v is None:
                raise ModelPanic("unwrap of None: " + T.show(t[1]))
            return v[1]
        if h == "isvar":
            v = self.eval(t[1], params)
            if t[2] == "Some":
                return v is not None
            if t[2] == "None":
                return v is None
            if isinstance(v, str):
                return v == t[2]       # a field-less enum value is represented by its variant name
            raise CannotEvaluate("variant test " + t[2])
        if h in ("and", "or"):
            a = self.eval(t[1], params)
            b = self.eval(t[2], params)
            return (a and b) if h == "and" else (a or b)
        if h == "not":
            return not self.eval(t[1], params)
        if h in ("==", "<", "<="):
            a = self.eval(t[1], params)
            b = self.eval(t[2], params)
            return {"==": a == b, "<": a < b, "<=": a <= b}[h]
        if h in ("+", "-", "*", "/"):
            a = self.eval(t[1], params)
            b = self.eval(t[2], params)
            if h == "/" and b == 0:
                raise ModelPanic("division by zero")
            r = {"+": a + b, "-": a - b, "*": a * b, "/": a / b if h == "/" else None}[h]
            if self.dec and isinstance(r, Fraction):
                from .magn import THRESH, round18
                if abs(r) >= THRESH:
                    raise ModelPanic("decimal overflow: %s = %.3g is not representable (fpdec panics with 'Internal representation exceeded')" % (T.show(t)[:80], float(r)))
                if h in ("*", "/"):
                    r = round18(r)
            return r
        if h == "neg":
            return -self.eval(t[1], params)
        if h == "cast":
            v = self.eval(t[1], params)
            discr = getattr(self.q, "discr", None)
            if isinstance(v, str) and discr is not None and v in discr:
                return Fraction(discr[v])      # `variant as integer`: the discriminant
            raise CannotEvaluate("cast " + T.show(t))
        if h == "app":
            return self.app(t, params)
        if h in ("closure", "lam"):
            return t
        raise CannotEvaluate("term " + T.show(t))

    def app(self, t, params):
        name, args = t[1], t[3]
        self.used_primitives.add(name)
        if name in ("Quantity::iter_units", "Unit::iter") and not args:
            return list(self.q.variants_const)
        if name == "LinearScaledUnit::scale":
            return self.scale(self.eval(args[0], params))
        if name == "Unit::si_prefix":
            v = self.q.tables["si_prefix"][self.eval(args[0], params)]
            return None if v == ("none",) else ("some", v[1][2])
        if name == "Unit::symbol":
            return self.q.tables["symbol"][self.eval(args[0], params)][1]
        if name == "Unit::name":
            return self.q.tables["name"][self.eval(args[0], params)][1]
        if name == "Quantity::new":
            return ("qty", self.eval(args[0], params), self.eval(args[1], params))
        if name == "core::slice::<impl [T]>::iter" and len(args) == 1:
            xs = self.eval(args[0], params)
            if not isinstance(xs, list):
                raise CannotEvaluate("slice iteration over a non-constant")
            return xs
        if name == ITER + "map":
            return [self.call(args[1], [x], params) for x in self.eval(args[0], params)]
        if name == ITER + "filter":
            xs = self.eval(args[0], params)
            return [x for x in xs if self.call(args[1], [x], params)]
        if name == ITER + "find":
            xs = self.eval(args[0], params)
            for x in xs:
                if self.call(args[1], [x], params):
                    return ("some", x)
            return None
        if name == ITER + "position":
            from fractions import Fraction
            for i, x in enumerate(self.eval(args[0], params)):
                if self.call(args[1], [x], params):
                    return ("some", Fraction(i))
            return None
        if name == ITER + "find_map":
            for x in self.eval(args[0], params):
                r = self.call(args[1], [x], params)
                if r is not None:
                    return r
            return None
        if name == ITER + "last":
            xs = self.eval(args[0], params)
            return ("some", xs[-1]) if xs else None
        if name == "iter_next":
            xs = self.eval(args[0], params)
            return ("some", xs[0]) if xs else None
        if name == "iter_rest":
            return self.eval(args[0], params)[1:]
        if name in (ITER + "cloned", ITER + "copied"):
            return self.eval(args[0], params)
        if name == ITER + "rev":
            return list(reversed(self.eval(args[0], params)))
        if name == ITER + "take_while":
            res = []
            for x in self.eval(args[0], params):
                if not self.call(args[1], [x], params):
                    break
                res.append(x)
            return res
        if name == ITER + "skip_while":
            xs = list(self.eval(args[0], params))
            while xs and self.call(args[1], [xs[0]], params):
                xs.pop(0)
            return xs
        if name == ITER + "chain":
            return list(self.eval(args[0], params)) + list(self.eval(args[1], params))
        if name == "core::iter::sources::once::once":
            return [self.eval(args[0], params)]
        if name == "core::iter::sources::empty::empty":
            return []
        OPT = "core::option::Option::<T>::"
        if name == OPT + "filter":
            o = self.eval(args[0], params)
            return o if o is not None and self.call(args[1], [o[1]], params) else None
        if name == OPT + "map":
            o = self.eval(args[0], params)
            return None if o is None else ("some", self.call(args[1], [o[1]], params))
        if name == OPT + "and_then":
            o = self.eval(args[0], params)
            return None if o is None else self.call(args[1], [o[1]], params)
        if name == OPT + "or":
            o = self.eval(args[0], params)
            return o if o is not None else self.eval(args[1], params)
        if name in (ITER + "max_by", ITER + "min_by", ITER + "fold"):
            raise CannotEvaluate("iterator primitive %s has no contract in the model" % name)
        raise CannotEvaluate("call " + name)

    def call(self, clo_term, values, params):
        clo = self.eval(clo_term, params) if clo_term[0] not in ("closure", "lam") else clo_term
        if clo[0] not in ("closure", "lam"):
            raise CannotEvaluate("not a closure")
        args = [self.cv(v) for v in values]
        outs = self.ev.summarize_closure(clo, args)
        return self.pick(outs, params)

    def pick(self, outs, params):
        hit = []
        for (g, k, t) in outs:
            if all(bool(self.eval(a, params)) == p for a, p in g):
                hit.append((k, t))
        if len(hit) != 1:
            raise CannotEvaluate("%d outcomes apply" % len(hit))
        k, t = hit[0]
        if k == "panic":
            raise ModelPanic("diverging call")
        return self.eval(t, params)
