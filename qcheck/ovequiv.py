"""Per-type overrides of analysed default methods.

The value-flow rules analyse the *default* bodies of the library's traits once,
for all types.  A type that overrides such a default is outside that analysis —
unless its override is the default specialised to that type.  This module
decides exactly that, statically: both bodies are summarised as gated value
terms, written in the type's own record form (its `amount` / `unit` / `new`),
specialised to every assignment of the type's units to the unit-valued
operands (guards on units and scales are then decided by the type's constant
tables) and compared: for every residual case the two must produce the same
outcome and the *same operand tree* (not merely the same real function —
rounding has to agree as well; only x*1, x/1 are simplified).

Anything the comparison cannot establish is reported as "not equivalent": the
caller then treats the override as not covered by the generic analysis.
"""
from . import generic as G, spec as S, term as T

X0, X1 = T.P(900, "x"), T.P(901, "y")

TRAIT_PREFIX = {"Unit": G.UNIT, "LinearScaledUnit": G.LSU, "Quantity": G.QTY, "HasRefUnit": G.HRU}


class NotEquivalent(Exception):
    pass


def _single(ev, body, args):
    outs = ev.summarize(body, args=args)
    if len(outs) == 1 and not outs[0][0] and outs[0][1] == "val":
        return T.canon(outs[0][2])
    raise NotEquivalent("record function of the type is not a single unconditional value")


def _strip(ty):
    s = ty.strip()
    while s.startswith("&"):
        s = s[1:].strip()
        if s.startswith("mut "):
            s = s[4:].strip()
    return s


class TypeView:
    """the record functions and constant tables of one quantity type"""

    def __init__(self, U, q):
        self.U, self.q = U, q
        ev = T.Evaluator(U, keep_tags=False)
        imp = q.impl_quantity
        bodies = {fn: U.item_body(imp, fn) for fn in ("new", "amount", "unit")}
        if any(b is None for b in bodies.values()):
            raise NotEquivalent("impl Quantity for %s lacks new/amount/unit bodies" % q.path)
        try:
            self.f_amount = _single(ev, bodies["amount"], [X0])
            self.f_unit = _single(ev, bodies["unit"], [X0])
            self.f_new = _single(ev, bodies["new"], [X0, X1])
        except T.Unsupported as x:
            raise NotEquivalent("record function outside the analysed fragment: %s" % x.what)

    def concretise(self, t):
        """Quantity::amount / unit / new written through the type's own bodies"""
        if not isinstance(t, tuple):
            return t
        h = t[0]
        if h == "app":
            args = tuple(self.concretise(x) for x in t[3])
            if t[1] == "Quantity::amount" and len(args) == 1:
                return T.subst(self.f_amount, {X0: args[0]})
            if t[1] == "Quantity::unit" and len(args) == 1:
                return T.subst(self.f_unit, {X0: args[0]})
            if t[1] == "Quantity::new" and len(args) == 2:
                return T.subst(self.f_new, {X0: args[0], X1: args[1]})
            return ("app", t[1], t[2], args)
        if h in ("p", "num", "str", "bool", "unit", "variant", "none", "const", "panic", "bytes", "opaque_lit", "fnref", "cv", "closure", "lam"):
            return t
        if h == "adt":
            return ("adt", t[1], t[2], tuple((n, self.concretise(x)) for n, x in t[3]))
        if h in ("tuple", "array"):
            return (h, tuple(self.concretise(x) for x in t[1]))
        return (h,) + tuple(self.concretise(x) if isinstance(x, tuple) else x for x in t[1:])

    def peval(self, t):
        """constant folding on the type's tables: scale(variant), comparisons of constants, boolean structure"""
        q = self.q
        if not isinstance(t, tuple):
            return t
        h = t[0]
        if h in ("p", "num", "str", "bool", "unit", "variant", "none", "panic", "bytes", "opaque_lit", "fnref", "cv", "closure", "lam"):
            return t
        if h == "const":
            if t[1].endswith("::REF_UNIT"):
                r = q.ref_unit_hru if "HasRefUnit" in t[1] else q.ref_unit_lsu
                if r:
                    return ("variant", q.unit_path, r)
            try:
                v = self.U.folder.fold_const(t[1])
            except Exception:
                return t
            if v[0] == "num":
                return ("num", v[1], v[2])
            if v[0] == "variant":
                return ("variant", v[1], v[2])
            return t
        if h == "app":
            args = tuple(self.peval(x) for x in t[3])
            if len(args) == 1 and args[0][0] == "variant" and args[0][1] == q.unit_path:
                tbl = {"LinearScaledUnit::scale": "scale", "Unit::name": "name", "Unit::symbol": "symbol", "Unit::si_prefix": "si_prefix"}.get(t[1])
                if tbl and tbl in q.tables and args[0][2] in q.tables[tbl]:
                    v = q.tables[tbl][args[0][2]]
                    if v[0] == "num":
                        return ("num", v[1], v[2])
                    if v[0] in ("str", "none"):
                        return v
            return ("app", t[1], t[2], args)
        if h == "adt":
            return ("adt", t[1], t[2], tuple((n, self.peval(x)) for n, x in t[3]))
        if h in ("tuple", "array"):
            return (h, tuple(self.peval(x) for x in t[1]))
        args = [self.peval(x) if isinstance(x, tuple) else x for x in t[1:]]
        const = lambda x: isinstance(x, tuple) and x[0] in ("num", "variant", "bool", "str")
        if h in ("==", "!=") and len(args) == 2 and const(args[0]) and const(args[1]) and args[0][0] == args[1][0]:
            same = args[0][1:3] == args[1][1:3] if args[0][0] == "variant" else args[0][1] == args[1][1]
            return ("bool", same if h == "==" else not same)
        if h in ("<", "<=", ">", ">=") and len(args) == 2 and args[0][0] == "num" and args[1][0] == "num":
            a, b = args[0][1], args[1][1]
            return ("bool", {"<": a < b, "<=": a <= b, ">": a > b, ">=": a >= b}[h])
        if h == "not" and args[0][0] == "bool":
            return ("bool", not args[0][1])
        if h in ("and", "or") and len(args) == 2:
            for i in (0, 1):
                if args[i][0] == "bool":
                    if args[i][1] == (h == "or"):
                        return ("bool", h == "or")
                    return args[1 - i]
        return (h,) + tuple(args)


def _cases(view, outs, mapping):
    res = []
    for (g, k, t) in outs:
        g2 = ()
        for (a, p) in g:
            a2 = T.canon(view.peval(T.subst(T.canon(view.concretise(a)), mapping)))
            g2 = T.gadd(g2, a2, p) if g2 is not None else None
            if g2 is None:
                break
        if g2 is None:
            continue
        t2 = T.canon(S._simp_units(view.peval(T.subst(T.canon(view.concretise(t)), mapping)))) if k == "val" else t
        res.append((g2, k, t2))
    return res


def equivalent(U, q, short, override_path, all_overrides):
    """-> number of specialised cases compared; raises NotEquivalent(reason)"""
    trait, name = short.split("::")
    bd = U.get_body(TRAIT_PREFIX[trait] + name)
    bo = U.body.get(override_path)
    if bd is None or bo is None:
        raise NotEquivalent("no body for the default or the override")
    if len(bd["params"]) != len(bo["params"]):
        raise NotEquivalent("different arity")
    view = TypeView(U, q)
    params = [T.P(i, (p.get("pat") or {}).get("name") or "a%d" % i) for i, p in enumerate(bo["params"])]
    others = {k: v for k, v in all_overrides.items() if k != short}
    try:
        outs_d = T.Evaluator(U, inline={"*"}, keep_tags=False, stop=set(), overrides=others).summarize(bd, args=list(params))
        outs_o = T.Evaluator(U, inline={"*"}, keep_tags=False, stop=set(), overrides=all_overrides).summarize(bo, args=list(params))
    except T.Unsupported as x:
        raise NotEquivalent("body outside the analysed fragment: %s" % x.what)
    # unit-valued operands
    slots = []
    for i, p in enumerate(bo["params"]):
        ty = _strip(p["ty"]["s"])
        if ty == q.unit_path:
            slots.append(params[i])
        elif ty in (q.path, "Self") and len(q.variants) > 1:
            u = T.canon(T.subst(view.f_unit, {X0: params[i]}))
            if u[0] != "variant":
                slots.append(u)
    import itertools
    n = 0
    for combo in itertools.product(q.variants_const or q.variants, repeat=len(slots)):
        mapping = {T.canon(s): ("variant", q.unit_path, v) for s, v in zip(slots, combo)}
        cd = _cases(view, outs_d, mapping)
        co = _cases(view, outs_o, mapping)
        atoms = T.guard_atoms(cd + co)
        for asg in T.assignments(atoms):
            sd = T.select(cd, asg)
            so = T.select(co, asg)
            n += 1
            where = "units %s%s" % (list(combo), (", case " + ", ".join(("" if v else "¬") + T.show(a) for a, v in asg.items())) if asg else "")
            if len(sd) != 1 or len(so) != 1:
                raise NotEquivalent("%s: %d / %d outcomes apply (default / override)" % (where, len(sd), len(so)))
            if sd[0][0] != so[0][0]:
                raise NotEquivalent("%s: the default %ss, the override %ss" % (where, sd[0][0], so[0][0]))
            if sd[0][0] == "val" and sd[0][1] != so[0][1]:
                raise NotEquivalent("%s: the default computes %s, the override %s" % (where, T.show(sd[0][1]), T.show(so[0][1])))
    return n


def filter_equivalent(ctx, rule, config, w, label, tk, names, imp):
    """Of the overridden default methods `names` of impl `label` for type key `tk`, returns those NOT shown equivalent
    to the default on that type (one passed obligation is recorded per equivalent one)."""
    U = w.U
    q = w.by_path.get(tk) or next((x for x in w.qtypes if x.unit_path == tk), None)
    if q is None:
        return list(names)
    allov = G.type_overrides(U, q)
    left = []
    for nm in names:
        short = "%s::%s" % (label, nm)
        path = allov.get(short)
        if path is None:
            left.append(nm)
            continue
        try:
            n = equivalent(U, q, short, path, allov)
            ctx.ob(rule + "-equivalent", "%s/%s/%s" % (config, tk, short), True, "", imp["span"])
            ctx.extra.setdefault("overrides_shown_equivalent_to_default", {})["%s/%s/%s" % (config, tk, short)] = "%d specialised cases" % n
        except (NotEquivalent, T.Unsupported) as x:
            ctx.extra.setdefault("overrides_not_equivalent", {})["%s/%s/%s" % (config, tk, short)] = str(x)[:300]
            left.append(nm)
    return left


def reasons(ctx, config, tk, label, names):
    d = ctx.extra.get("overrides_not_equivalent", {})
    r = [d.get("%s/%s/%s::%s" % (config, tk, label, n)) for n in names]
    r = [x for x in r if x]
    return (" (" + "; ".join(r) + ")") if r else ""
