"""A2 — constant folding of exported THIR expressions (constant tables).

Values:
  ('num', Fraction value, ty, repr)   numbers in their type: for f64 the exact
                                      binary value; repr keeps (coeff, nfrac)
                                      for decimals / literal text
  ('str', s) ('bool', b)
  ('variant', adt_path, variant_name)
  ('some', v) ('none',)
  ('struct', path, {field: v}) ('tuple', [v]) ('array', [v])
Anything else raises Unfoldable (=> unsupported-construct, fail closed).
"""
from fractions import Fraction


class Unfoldable(Exception):
    def __init__(self, what, sp=None):
        super().__init__(what)
        self.what = what
        self.sp = sp


KNOWN_EXTERN_CONSTS = {
    # fpdec-0.11: Decimal::ZERO / ONE (trusted base, listed in evidence)
    "fpdec::Decimal::ZERO": ("num", Fraction(0), "fpdec::Decimal", (0, 0)),
    "fpdec::Decimal::ONE": ("num", Fraction(1), "fpdec::Decimal", (1, 0)),
}

INT_RANGES = {
    "i8": (-2**7, 2**7 - 1), "i16": (-2**15, 2**15 - 1), "i32": (-2**31, 2**31 - 1),
    "i64": (-2**63, 2**63 - 1), "i128": (-2**127, 2**127 - 1), "isize": (-2**63, 2**63 - 1),
    "u8": (0, 2**8 - 1), "u16": (0, 2**16 - 1), "u32": (0, 2**32 - 1), "u64": (0, 2**64 - 1),
    "u128": (0, 2**128 - 1), "usize": (0, 2**64 - 1),
}


def f64_of_text(text):
    """Correctly rounded binary64 value of a decimal literal (Python's float()
    is correctly rounded, as is rustc's literal conversion)."""
    t = text.replace("_", "")
    for suf in ("f64", "f32"):
        if t.endswith(suf):
            t = t[: -len(suf)]
    return float(t)


class Folder:
    def __init__(self, lookup_const_body):
        # lookup_const_body(path) -> THIR body dict or None
        self.lookup = lookup_const_body
        self.depth = 0
        self.env = {}        # variable name -> folded value (per-variant evaluation of table functions)
        self.discr = None    # callable (enum path, variant) -> int or None

    def fold(self, e):
        if e is None:
            raise Unfoldable("missing expression")
        k = e["k"]
        sp = e.get("sp")
        if k == "block":
            if e["stmts"]:
                raise Unfoldable("block with statements", sp)
            return self.fold(e["expr"])
        if k == "lit":
            lit = e["lit"]
            ty = e["ty"]["s"]
            if lit["t"] == "float":
                if ty != "f64":
                    raise Unfoldable("float literal of type " + ty, sp)
                v = f64_of_text(lit["v"])
                if e["neg"]:
                    v = -v
                return ("num", Fraction(v), "f64", lit["v"])
            if lit["t"] == "int":
                v = int(lit["v"])
                if e["neg"]:
                    v = -v
                if ty in INT_RANGES:
                    lo, hi = INT_RANGES[ty]
                    if not (lo <= v <= hi):
                        raise Unfoldable("integer literal out of range", sp)
                    return ("num", Fraction(v), ty, lit["v"])
                if ty == "f64":
                    return ("num", Fraction(float(v)), "f64", lit["v"])
                raise Unfoldable("int literal of type " + ty, sp)
            if lit["t"] == "str":
                return ("str", lit["v"])
            if lit["t"] == "bool":
                return ("bool", lit["v"])
            if lit["t"] == "bytestr":
                return ("bytes", tuple(lit["v"]))
            if lit["t"] == "char":
                return ("char", lit["v"])
            raise Unfoldable("literal kind " + lit["t"], sp)
        if k == "cast":
            v = self.fold(e["e"])
            to = e["to"]["s"]
            if v[0] == "num" and to == "f64":
                if v[2] == "f64":
                    return v
                if v[2] in INT_RANGES:
                    return ("num", Fraction(float(int(v[1]))), "f64", v[3])
            if v[0] == "num" and to in INT_RANGES and v[2] in INT_RANGES:
                lo, hi = INT_RANGES[to]
                if lo <= v[1] <= hi:
                    return ("num", v[1], to, v[3])
            if v[0] == "variant" and to in INT_RANGES:
                return ("discr_of", v, to)
            raise Unfoldable("cast %s -> %s" % (v[0], to), sp)
        if k == "un" and e["op"] == "Neg":
            v = self.fold(e["e"])
            if v[0] == "num":
                r = v[3]
                if isinstance(r, tuple):
                    r = (-r[0], r[1])
                return ("num", -v[1], v[2], r)
            raise Unfoldable("negation of non-number", sp)
        if k in ("ref", "deref"):
            return self.fold(e["e"])
        if k == "var":
            if e["name"] in self.env:
                return self.env[e["name"]]
            raise Unfoldable("variable " + e["name"], sp)
        if k == "index":
            base = self.fold(e["e"])
            idx = self.fold(e["i"])
            if idx[0] == "discr_of" and self.discr is not None:
                d = self.discr(idx[1][1], idx[1][2])
                if d is None:
                    raise Unfoldable("unknown discriminant", sp)
                idx = ("num", Fraction(d), idx[2], str(d))
            if base[0] == "array" and idx[0] == "num" and idx[1].denominator == 1:
                i = int(idx[1])
                if 0 <= i < len(base[1]):
                    return base[1][i]
                raise Unfoldable("index %d out of bounds (len %d): a panic at run time" % (i, len(base[1])), sp)
            raise Unfoldable("index into a non-constant", sp)
        if k == "coerce":
            return self.fold(e["e"])
        if k == "adt":
            if e["has_base"]:
                raise Unfoldable("struct update syntax", sp)
            if e["path"] == "core::option::Option":
                if e["variant"] == "Some":
                    return ("some", self.fold(e["fields"][0]["e"]))
                return ("none",)
            if e["is_enum"]:
                if e["fields"]:
                    raise Unfoldable("enum variant with fields", sp)
                return ("variant", e["path"], e["variant"])
            return ("struct", e["path"], {f["name"]: self.fold(f["e"]) for f in e["fields"]})
        if k == "tuple":
            return ("tuple", [self.fold(x) for x in e["elems"]])
        if k == "array":
            return ("array", [self.fold(x) for x in e["elems"]])
        if k == "match":
            # a constant table spelled as a `match` on a constant (e.g. a helper `const fn` taking `self`)
            v = self.fold(e["scrut"])
            for arm in e["arms"]:
                if arm.get("guard") is not None:
                    raise Unfoldable("guarded arm in a constant match", sp)
                m = self.pat_matches(arm["pat"], v, sp)
                if m:
                    return self.fold(arm["body"])
            raise Unfoldable("no arm of a constant match applies", sp)
        if k == "const":
            p = e.get("resolved") or e["path"]
            return self.fold_const(p, sp)
        if k == "call":
            f = e.get("fn")
            if not f:
                raise Unfoldable("indirect call", sp)
            p = f["path"]
            if p == "fpdec::Decimal::new_raw":
                a = [self.fold(x) for x in e["args"]]
                if len(a) == 2 and a[0][0] == "num" and a[1][0] == "num":
                    c = int(a[0][1])
                    n = int(a[1][1])
                    if 0 <= n <= 18:
                        return ("num", Fraction(c, 10 ** n), "fpdec::Decimal", (c, n))
                raise Unfoldable("Decimal::new_raw with non-constant args", sp)
            if f.get("trait") == "alloc::borrow::ToOwned" and f["name"] == "to_owned":
                v = self.fold(e["args"][0])
                if v[0] == "str":
                    return v
            if p in ("alloc::string::ToString::to_string", "core::convert::From::from", "core::convert::Into::into") or \
                    (f.get("trait") in ("alloc::string::ToString", "core::convert::From", "core::convert::Into")):
                v = self.fold(e["args"][0])
                if v[0] == "str":
                    return v
            if p == "alloc::string::String::new" and not e["args"]:
                return ("str", "")
            # a function of the analysed crates whose body is itself a constant expression of its parameters
            # (e.g. a `const fn new(..) -> Self { Self { .. } }` used to build a constant table)
            target = (f.get("resolved") or {}).get("path") or p
            b = self.lookup(target)
            if b is not None and self.depth < 12:
                params = [q.get("pat") for q in b.get("params", [])]
                if len(params) == len(e["args"]) and all(q and q.get("k") == "bind" for q in params):
                    vals = [self.fold(x) for x in e["args"]]
                    saved = self.env
                    self.env = {q["name"]: v for q, v in zip(params, vals)}
                    self.depth += 1
                    try:
                        return self.fold(b["value"])
                    finally:
                        self.depth -= 1
                        self.env = saved
            raise Unfoldable("call to " + p, sp)
        raise Unfoldable("expression kind " + k, sp)

    def pat_matches(self, p, v, sp=None):
        k = p["k"]
        if k == "deref":
            return self.pat_matches(p["sub"], v, sp)
        if k == "wild":
            return True
        if k == "bind":
            if p.get("sub") is not None:
                raise Unfoldable("binding with sub-pattern in a constant match", sp)
            return True   # (the binding itself is not made available: a body using it stays unfoldable)
        if k == "or":
            return any(self.pat_matches(q, v, sp) for q in p["pats"])
        if k == "variant":
            if p["subs"]:
                raise Unfoldable("variant pattern with fields", sp)
            if v[0] != "variant":
                raise Unfoldable("variant pattern on a non-variant constant", sp)
            return v[1] == p["path"] and v[2] == p["variant"]
        if k == "const":
            if "str" in p and v[0] == "str":
                return v[1] == p["str"]
            if "bits" in p and v[0] == "num" and p["ty"]["s"] in INT_RANGES:
                bits = int(p["bits"])
                lo, _hi = INT_RANGES[p["ty"]["s"]]
                if lo < 0 and bits >= 1 << (8 * p["size"] - 1):
                    bits -= 1 << (8 * p["size"])
                return v[1] == bits
            if "bits" in p and v[0] == "bool":
                return v[1] == bool(int(p["bits"]))
            raise Unfoldable("constant pattern of type " + p["ty"]["s"], sp)
        raise Unfoldable("pattern kind " + str(p.get("kind") or k), sp)

    def fold_const(self, path, sp=None):
        if path in KNOWN_EXTERN_CONSTS:
            return KNOWN_EXTERN_CONSTS[path]
        b = self.lookup(path)
        if b is None:
            raise Unfoldable("constant %s has no body in the fact set" % path, sp)
        self.depth += 1
        if self.depth > 12:
            raise Unfoldable("constant recursion", sp)
        try:
            return self.fold(b["value"])
        finally:
            self.depth -= 1
