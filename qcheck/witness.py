"""Engine D — witness crates: programs that are only ever TYPE-CHECKED
(`cargo check --message-format=json`); no binary is built or run."""
import hashlib
import json
import os
import shutil
import subprocess

from . import facts


def workdir(name):
    rtag = hashlib.sha256(os.path.abspath(facts.REPO).encode()).hexdigest()[:6]
    d = os.path.join(facts.CACHE, "witness", "%s-%s" % (name, rtag))
    os.makedirs(d, exist_ok=True)
    return d


def write_crate(d, pkg, features=(), examples=None, lib=None, extra_deps=""):
    """(Re)creates a crate path-depending on the repository under test."""
    for sub in ("examples", "src"):
        p = os.path.join(d, sub)
        if os.path.isdir(p):
            shutil.rmtree(p)
    os.makedirs(os.path.join(d, "src"))
    feats = ", ".join('"%s"' % f for f in features)
    with open(os.path.join(d, "Cargo.toml"), "w") as fh:
        fh.write('[package]\nname = "%s"\nversion = "0.0.0"\nedition = "2021"\n\n[workspace]\n\n[dependencies]\n'
                 'quantities = { path = "%s", features = [%s] }\n%s' % (pkg, facts.REPO, feats, extra_deps))
    shutil.copy(os.path.join(facts.REPO, "Cargo.lock"), os.path.join(d, "Cargo.lock"))
    with open(os.path.join(d, "src", "lib.rs"), "w") as fh:
        fh.write(lib or "// witness crate\n")
    if examples:
        os.makedirs(os.path.join(d, "examples"))
        for name, src in examples.items():
            with open(os.path.join(d, "examples", name + ".rs"), "w") as fh:
                fh.write(src)


class tgt_lock:
    """Serialises users of one shared cargo target directory (several checks /
    scratch copies may run concurrently)."""

    def __init__(self, tgt_name):
        os.makedirs(os.path.join(facts.CACHE, "tgt"), exist_ok=True)
        self.path = os.path.join(facts.CACHE, "tgt", tgt_name + ".lock")

    def __enter__(self):
        import fcntl
        self.fh = open(self.path, "w")
        fcntl.flock(self.fh, fcntl.LOCK_EX)
        cap_target_dir(self.path[:-len(".lock")])

    def __exit__(self, *a):
        self.fh.close()


TGT_CAP = 4 << 30


def cap_target_dir(tgt):
    """A shared target directory collects one set of artefacts per analysed copy of the repository (scratch copies of
    the self-tests have their own paths); it is a cache and is emptied when it outgrows TGT_CAP (holder of the lock only)."""
    if not os.path.isdir(tgt):
        return
    try:
        out = subprocess.run(["du", "-sb", tgt], stdout=subprocess.PIPE, stderr=subprocess.DEVNULL, text=True).stdout.split()
        if out and int(out[0]) > TGT_CAP:
            import shutil
            shutil.rmtree(tgt, ignore_errors=True)
    except (ValueError, OSError):
        pass


def cargo_check(d, tgt_name, args, toolchain=None):
    with tgt_lock(tgt_name):
        return _cargo_check(d, tgt_name, args, toolchain)


def _cargo_check(d, tgt_name, args, toolchain=None):
    """Runs cargo check with JSON diagnostics; returns (returncode, [json records], raw)."""
    env = dict(os.environ)
    env["CARGO_TARGET_DIR"] = os.path.join(facts.CACHE, "tgt", tgt_name)
    env["CARGO_NET_OFFLINE"] = "true"
    env.pop("RUSTC_WORKSPACE_WRAPPER", None)
    cmd = ["cargo"] + ([toolchain] if toolchain else []) + ["check", "--offline", "--message-format=json"] + list(args)
    p = subprocess.run(cmd, cwd=d, env=env, stdout=subprocess.PIPE, stderr=subprocess.PIPE, text=True)
    recs = []
    for line in p.stdout.splitlines():
        line = line.strip()
        if line.startswith("{"):
            try:
                recs.append(json.loads(line))
            except ValueError:
                pass
    return p.returncode, recs, p.stderr


def diagnostics(recs):
    """target name -> [(level, message, primary file, line, col, code)]"""
    out = {}
    arts = set()
    for r in recs:
        if r.get("reason") == "compiler-artifact":
            arts.add((r["target"]["name"], tuple(r["target"]["kind"])))
        if r.get("reason") != "compiler-message":
            continue
        m = r["message"]
        tn = r["target"]["name"]
        prim = [s for s in m.get("spans", []) if s.get("is_primary")]
        # for macro-generated code use the outermost expansion call site
        def root(s):
            while s.get("expansion") and s["expansion"].get("span"):
                s = s["expansion"]["span"]
            return s
        if prim:
            s = root(prim[0])
            loc = (s["file_name"], s["line_start"], s["column_start"])
        else:
            loc = (None, None, None)
        out.setdefault(tn, []).append((m["level"], m["message"], loc[0], loc[1], loc[2], (m.get("code") or {}).get("code")))
    return out, arts


def extract(d, pkg, tgt_name, config_label):
    with tgt_lock(tgt_name):
        return _extract(d, pkg, tgt_name, config_label)


def _extract(d, pkg, tgt_name, config_label):
    """Runs the fact exporter (Engine A) over the witness crate `pkg` in `d`
    and returns its facts.Crate.  Only type-checking happens."""
    import glob
    import uuid
    out = os.path.join(d, "facts-" + config_label)
    if os.path.isdir(out):
        shutil.rmtree(out)
    os.makedirs(out)
    tgt = os.path.join(facts.CACHE, "tgt", tgt_name)
    for fp in glob.glob(os.path.join(tgt, "debug", ".fingerprint", pkg.replace("_", "-") + "-*")) + \
            glob.glob(os.path.join(tgt, "debug", ".fingerprint", pkg + "-*")):
        shutil.rmtree(fp, ignore_errors=True)
    nonce = uuid.uuid4().hex
    env = dict(os.environ)
    env.update({
        "LD_LIBRARY_PATH": facts.sysroot() + "/lib",
        "RUSTFLAGS": "-Zmir-opt-level=0 -Awarnings",
        "RUSTC_WORKSPACE_WRAPPER": facts.DRIVER,
        "QFACTS_OUT": out, "QFACTS_NONCE": nonce, "QFACTS_CONFIG": config_label,
        "CARGO_TARGET_DIR": tgt, "CARGO_NET_OFFLINE": "true", "CARGO_INCREMENTAL": "0",
    })
    p = subprocess.run(["cargo", "+nightly", "check", "--offline", "-q", "--lib"], cwd=d, env=env,
                       stdout=subprocess.PIPE, stderr=subprocess.STDOUT, text=True)
    if p.returncode != 0:
        raise facts.ExtractionError("witness:" + config_label, p.stdout)
    files = [f for f in glob.glob(os.path.join(out, "*.json")) if os.path.basename(f).startswith(pkg + "-")]
    if len(files) != 1:
        raise facts.ExtractionError("witness:" + config_label, "expected one fact file for %s, found %d\n%s" % (pkg, len(files), p.stdout))
    dj = json.load(open(files[0]))
    if dj.get("nonce") != nonce:
        raise facts.ExtractionError("witness:" + config_label, "stale fact file")
    c = facts.Crate(dj, files[0])
    c.src = dj.get("src", "")
    return c
