"""Quantity model extracted from the type-checked program (Engine A facts)."""
from fractions import Fraction

from . import fold as F

T_QUANTITY = "quantities::Quantity"
T_UNIT = "quantities::Unit"
T_LSU = "quantities::LinearScaledUnit"
T_HRU = "quantities::HasRefUnit"
OPS = {
    "core::ops::arith::Add": "+", "core::ops::arith::Sub": "-",
    "core::ops::arith::Mul": "*", "core::ops::arith::Div": "/",
}
CMPS = {"core::cmp::PartialEq": "==", "core::cmp::PartialOrd": "<", "core::cmp::Eq": "Eq"}
AMOUNT_TYPES = ("f64", "fpdec::Decimal")


class ModelError(Exception):
    """anchor missing / unsupported construct — reported as a violation
    (fail closed)."""

    def __init__(self, rule, what, where=None):
        super().__init__("%s: %s%s" % (rule, what, (" @ " + where) if where else ""))
        self.rule = rule
        self.what = what
        self.where = where


def ty_key(t):
    """Canonical short key of an exported type."""
    k = t["k"]
    if k == "adt":
        if t["args"]:
            return t["path"] + "<" + ",".join(ty_key(a) for a in t["args"]) + ">"
        return t["path"]
    if k == "ref":
        return "&" + ty_key(t["ty"])
    if k == "param":
        return "$" + t["name"]
    return t["s"]


def alpha(keys):
    """Renames the generic parameters ($Name) of a list of type keys by first appearance."""
    import re
    names = {}

    def sub(m):
        return names.setdefault(m.group(0), "$G%d" % len(names))
    return [re.sub(r"\$[A-Za-z_][A-Za-z0-9_]*", sub, k) if isinstance(k, str) else k for k in keys]


def peel(e):
    """Strip blocks without statements, refs/derefs and coercions."""
    while True:
        if e is None:
            return e
        k = e["k"]
        if k == "block" and not e["stmts"] and e["expr"] is not None:
            e = e["expr"]
        elif k in ("ref", "deref", "coerce"):
            e = e["e"]
        else:
            return e


class QType:
    def __init__(self):
        self.path = None          # type key (adt path or amount type)
        self.name = None
        self.crate = None
        self.module = None
        self.unit_path = None
        self.kind = None          # ref | noref | single | dimless
        self.variants = []        # enum variant names in declaration order
        self.tables = {}          # name/symbol/si_prefix/scale -> {variant: value}
        self.variants_const = None  # list of variant names (VARIANTS)
        self.ref_unit_lsu = None
        self.ref_unit_hru = None
        self.consts = {}          # CONST name -> variant
        self.impl_quantity = None
        self.span = None
        self.expn = None
        self.struct_fields = []

    def __repr__(self):
        return "<QType %s %s>" % (self.path, self.kind)


class Universe:
    """All crates of a fact set, with global body / impl lookup."""

    def __init__(self, fs, crates=None):
        self.fs = fs
        self.crates = crates if crates is not None else [c for c in fs.crates]
        self.body = {}
        order = sorted(self.crates, key=lambda c: (c.is_test, c.name))
        for c in order:
            for p, b in c.bodies.items():
                self.body.setdefault(p, b)
        self.folder = F.Folder(lambda p: self.body.get(p))
        self._discr = {}
        for c in order:
            for a in c.adts:
                for v in a.get("variants", []):
                    if v.get("discr") is not None:
                        self._discr.setdefault((a["path"], v["name"]), int(v["discr"]))
        self.folder.discr = lambda path, variant: self._discr.get((path, variant))
        self.trait_items = {}
        for c in order:
            for t in c.traits:
                self.trait_items.setdefault(t["path"], t)

    # ---- item lookup independent of the module an impl block lives in -----------
    def resolve_item(self, path):
        """rustc names an impl item `<Self as Trait>::f` / `Type::<..>::f` only while the impl block sits in the
        module of its self type; elsewhere it is `module::<impl Trait for Self>::f`.  Rules name items the first
        way; this finds the body through the impl table if the block was moved."""
        if path in self.body:
            return path
        import re
        head = lambda x: re.sub(r"<.*$", "", x).strip()
        m = re.match(r"^<(.+) as ([^<>]+)(<.*>)?>::(\w+)$", path)
        cands = []
        if m:
            sh, tr, fn = head(m.group(1)), m.group(2), m.group(4)
            for c in self.crates:
                for imp in c.impls:
                    if imp.get("trait") == tr and head(ty_key(imp["self_ty"])) == sh:
                        it = self.impl_item(imp, fn)
                        if it is not None and it["path"] in self.body:
                            cands.append(it["path"])
        else:
            m = re.match(r"^([\w:]+?)(::<.*>)?::(\w+)$", path)
            if m:
                sh, fn = m.group(1), m.group(3)
                for c in self.crates:
                    for imp in c.impls:
                        if imp.get("trait") is None and head(ty_key(imp["self_ty"])) == sh:
                            it = self.impl_item(imp, fn)
                            if it is not None and it["path"] in self.body:
                                cands.append(it["path"])
        cands = sorted(set(cands))
        return cands[0] if len(cands) == 1 else path

    def get_body(self, path):
        return self.body.get(self.resolve_item(path))

    # ---- impl queries -------------------------------------------------
    def impls_of(self, crate, trait):
        return [i for i in crate.impls if i.get("trait") == trait]

    def impl_item(self, impl, name):
        for it in impl["items"]:
            if it["name"] == name:
                return it
        return None

    def item_body(self, impl, name):
        it = self.impl_item(impl, name)
        if it is None:
            return None
        return self.body.get(it["path"])

    # ---- tables -------------------------------------------------------
    def table(self, body, variants, rule, what, enum_path=None):
        """A2: {variant: folded value} from `match self {V => const,...}` or a
        constant body."""
        e = peel(body["value"])
        res = {}
        if e["k"] == "match":
            s = peel(e["scrut"])
            if not (s["k"] == "var" and s["name"] == "self"):
                raise ModelError(rule, "%s: match scrutinee is not self" % what, body["span"])
            default = None
            for arm in e["arms"]:
                if arm["guard"] is not None:
                    raise ModelError(rule, "%s: guarded arm" % what, body["span"])
                p = arm["pat"]
                while p["k"] == "deref":
                    p = p["sub"]
                pats = p["pats"] if p["k"] == "or" else [p]
                try:
                    val = self.folder.fold(arm["body"])
                except F.Unfoldable as u:
                    raise ModelError(rule, "%s: arm not constant (%s)" % (what, u.what), u.sp or body["span"])
                for q in pats:
                    while q["k"] == "deref":
                        q = q["sub"]
                    if q["k"] == "variant":
                        if q["variant"] not in res:  # first matching arm wins
                            res[q["variant"]] = val
                    elif q["k"] in ("wild", "bind"):
                        if default is None:
                            default = val
                    else:
                        raise ModelError(rule, "%s: unsupported pattern %s" % (what, q["k"]), body["span"])
            for v in variants:
                if v not in res:
                    if default is None:
                        raise ModelError(rule, "%s: variant %s not covered" % (what, v), body["span"])
                    res[v] = default
            return res
        try:
            val = self.folder.fold(e)
            return {v: val for v in variants}
        except F.Unfoldable as u:
            first = u
        # any other constant expression of `self` (e.g. a table indexed by the discriminant): fold it per variant
        if enum_path is None:
            raise ModelError(rule, "%s: body is neither a match on self nor a constant (%s)" % (what, first.what),
                             first.sp or body["span"])
        for v in variants:
            self.folder.env = {"self": ("variant", enum_path, v)}
            try:
                res[v] = self.folder.fold(e)
            except F.Unfoldable as u:
                # code rather than an expression (e.g. a scan of a constant table by discriminant): the body is
                # constant-evaluated for this variant, as the compiler would evaluate the `const fn`
                self.folder.env = {}
                from . import ctfe
                try:
                    res[v] = ctfe.Ctfe(self, lambda path, variant: self._discr.get((path, variant))).call_body(body, [("variant", enum_path, v)])
                except ctfe.FoldPanic as pn:
                    raise ModelError(rule, "%s: panics for variant %s (%s)" % (what, v, pn), u.sp or body["span"])
                except ctfe.CannotFold as cf:
                    raise ModelError(rule, "%s: not a constant for variant %s (%s; %s)" % (what, v, u.what, cf.what), cf.sp or u.sp or body["span"])
            finally:
                self.folder.env = {}
        return res

    # ---- quantity types ----------------------------------------------
    def qtypes(self, crate):
        res = []
        for imp in self.impls_of(crate, T_QUANTITY):
            q = QType()
            q.crate = crate
            q.impl_quantity = imp
            q.span = imp["span"]
            q.expn = imp.get("expn")
            st = imp["self_ty"]
            q.path = ty_key(st)
            q.name = q.path.split("::")[-1]
            q.module = imp["module"]
            ut = self.impl_item(imp, "UnitType")
            if ut is None:
                raise ModelError("model", "impl Quantity without UnitType", imp["span"])
            q.unit_path = ty_key(ut.get("ty_norm") or ut["ty"])
            adt = crate.adt_by_path.get(q.unit_path)
            if adt is None:
                # unit enum defined in another crate of the fact set (AmountT/One)
                for c in self.crates:
                    if q.unit_path in c.adt_by_path:
                        adt = c.adt_by_path[q.unit_path]
                        break
            if adt is None or not adt["is_enum"]:
                raise ModelError("model", "unit type %s of %s is not a local enum" % (q.unit_path, q.path), imp["span"])
            q.unit_adt = adt
            q.variants = [v["name"] for v in adt["variants"]]
            sadt = crate.adt_by_path.get(q.path)
            q.struct_adt = sadt
            if sadt is not None:
                q.struct_fields = [(f["name"], ty_key(f["ty"])) for f in sadt["variants"][0]["fields"]]
            hru = [i for i in self.all_impls(T_HRU) if ty_key(i["self_ty"]) == q.path]
            q.impl_hru = hru[0] if hru else None
            lsu = [i for i in self.all_impls(T_LSU) if ty_key(i["self_ty"]) == q.unit_path]
            q.impl_lsu = lsu[0] if lsu else None
            un = [i for i in self.all_impls(T_UNIT) if ty_key(i["self_ty"]) == q.unit_path]
            q.impl_unit = un[0] if un else None
            if q.path in AMOUNT_TYPES:
                q.kind = "dimless"
            elif q.impl_hru is not None:
                q.kind = "ref"
            elif len(q.variants) == 1:
                q.kind = "single"
            else:
                q.kind = "noref"
            res.append(q)
        return res

    def all_impls(self, trait):
        if not hasattr(self, "_all_impls"):
            self._all_impls = {}
        if trait not in self._all_impls:
            seen = set()
            out = []
            for c in sorted(self.crates, key=lambda c: (c.is_test, c.name)):
                for i in c.impls:
                    if i.get("trait") == trait:
                        k = (c.name, i["span"], ty_key(i["self_ty"]), str(i.get("trait_args") and [ty_key(a) for a in i["trait_args"]]))
                        if k in seen:
                            continue
                        seen.add(k)
                        i["_crate"] = c
                        out.append(i)
            self._all_impls[trait] = out
        return self._all_impls[trait]

    def fill_tables(self, q, rule="A2"):
        """Extracts name/symbol/si_prefix/scale tables, VARIANTS, REF_UNIT
        and the unit constants of a quantity type."""
        if q.impl_unit is None:
            raise ModelError(rule, "no impl Unit for %s" % q.unit_path, q.span)
        for fn in ("name", "symbol", "si_prefix"):
            b = self.item_body(q.impl_unit, fn)
            if b is None:
                raise ModelError(rule, "no body for <%s as Unit>::%s" % (q.unit_path, fn), q.impl_unit["span"])
            q.tables[fn] = self.table(b, q.variants, rule, "<%s as Unit>::%s" % (q.unit_path, fn), enum_path=q.unit_path)
        if q.impl_lsu is not None:
            b = self.item_body(q.impl_lsu, "scale")
            if b is None:
                raise ModelError(rule, "no body for <%s as LinearScaledUnit>::scale" % q.unit_path, q.impl_lsu["span"])
            q.tables["scale"] = self.table(b, q.variants, rule, "<%s as LinearScaledUnit>::scale" % q.unit_path, enum_path=q.unit_path)
            b = self.item_body(q.impl_lsu, "REF_UNIT")
            if b is None:
                raise ModelError(rule, "no LinearScaledUnit::REF_UNIT for " + q.unit_path, q.impl_lsu["span"])
            q.ref_unit_lsu = self._variant(b, rule)
        if q.impl_hru is not None:
            b = self.item_body(q.impl_hru, "REF_UNIT")
            if b is None:
                raise ModelError(rule, "no HasRefUnit::REF_UNIT for " + q.path, q.impl_hru["span"])
            q.ref_unit_hru = self._variant(b, rule)
        # VARIANTS
        vb = self.body.get(q.unit_path + "::VARIANTS")
        if vb is None:
            raise ModelError(rule, "no VARIANTS constant for " + q.unit_path, q.span)
        try:
            v = self.folder.fold(vb["value"])
        except F.Unfoldable as u:
            raise ModelError(rule, "VARIANTS of %s not constant (%s)" % (q.unit_path, u.what), u.sp or vb["span"])
        if v[0] != "array" or any(x[0] != "variant" or x[1] != q.unit_path for x in v[1]):
            raise ModelError(rule, "VARIANTS of %s is not an array of its variants" % q.unit_path, vb["span"])
        q.variants_const = [x[2] for x in v[1]]
        # unit constants of the defining module
        q.consts = {}
        for c in q.crate.consts:
            if c["kind"].startswith("Const") and ty_key(c["ty"]) == q.unit_path:
                b = self.body.get(c["path"])
                if b is None:
                    continue
                try:
                    val = self.folder.fold(b["value"])
                except F.Unfoldable as u:
                    raise ModelError(rule, "constant %s not foldable (%s)" % (c["path"], u.what), u.sp or c["span"])
                if val[0] == "variant":
                    q.consts[c["path"]] = (val[2], c)
        return q

    def _variant(self, body, rule):
        try:
            v = self.folder.fold(body["value"])
        except F.Unfoldable as u:
            raise ModelError(rule, "%s not constant (%s)" % (body["def"], u.what), u.sp or body["span"])
        if v[0] != "variant":
            raise ModelError(rule, "%s is not a unit variant" % body["def"], body["span"])
        return v[2]

    # ---- operator table (A1) -----------------------------------------
    def op_impls(self, crate):
        """[(op, self_key, rhs_key, out_key, impl)] for Add/Sub/Mul/Div impls of
        the crate.  Generic parameters are named by first appearance in (self,
        rhs, output) — $G0, $G1, … — so that renaming them changes nothing."""
        res = []
        for i in crate.impls:
            t = i.get("trait")
            if t in OPS:
                rhs = ty_key(i["trait_args"][1]) if len(i["trait_args"]) > 1 else ty_key(i["self_ty"])
                out = self.impl_item(i, "Output")
                outk = ty_key(out.get("ty_norm") or out["ty"]) if out else None
                s_, r_, o_ = alpha([ty_key(i["self_ty"]), rhs, outk])
                res.append((OPS[t], s_, r_, o_, i))
        return res

    def cmp_impls(self, crate):
        res = []
        for i in crate.impls:
            t = i.get("trait")
            if t in CMPS:
                rhs = ty_key(i["trait_args"][1]) if len(i["trait_args"]) > 1 else ty_key(i["self_ty"])
                res.append((CMPS[t], ty_key(i["self_ty"]), rhs, i))
        return res
